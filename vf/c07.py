"""C07 – string and binary fields, including computed lengths, decode as documented."""
from hypothesis import strategies as st

from vf import c01, pk, xcheck, xdoc, xgen, xref
from vf.runner import exc_sig, hyp_run

PROPERTY = "C07"
LEVEL = "exploration"
RULE = ("Template documents drawn by Hypothesis: header, 0..7 bits of filler (bit offset), optional length-source "
        "parameters (raw, or calibrated with an exact polynomial), the string / binary parameter under test, and a "
        "16-bit sentinel after it (its value proves where the cursor stopped). All ten character sets; buffer lengths "
        "1..400 bits incl. non-multiples of 8 (binary: 0..400); no delimiter / termination character / leading size "
        "tag; fixed / looked-up (several entries) / referenced lengths, raw and calibrated, with and without linear "
        "adjustment; referenced values >= 0. Content synthesised in the character set (ASCII, Latin-1 high range, BMP, "
        "astral, code units whose bytes contain the terminator's bytes at odd offsets), terminator present / absent / "
        "misaligned, size tag consistent / too large / not a multiple of 8, and random bytes. Plus free documents of "
        "the 'blobs' profile. Loaded from own XML or built from objects. Oracle (vf/xref.py): binary value = field "
        "bits left-padded to whole bytes; string raw value = buffer right-padded; value per delimiter (terminator "
        "searched at code-unit alignment); the sentinel and raw_data.pos prove the cursor advanced by exactly the "
        "computed length. Sub-domains the property leaves open (missing terminator, size tag not a multiple of 8 or "
        "beyond the buffer, undecodable text) are counted, not asserted. Non-trivial: offset != 0, or length not a "
        "whole number of bytes, or a non-fixed length form, or a multi-byte character set with a delimiter.")
ASSUMPTIONS = ["python's codec tables are trusted, the slicing is not",
               "a UTF-8 termination character may take 1..3 bytes and may start at any byte offset (UTF-8 is "
               "self-synchronising); in the fixed-width character sets it is searched at code-unit alignment"]
EXHAUSTIVE = {"quick": False, "thorough": False}


def _int_type(name, bits, dcal=None):
    return {"kind": "int", "name": name + "_T", "unit": None,
            "enc": {"k": "int", "bits": bits, "sign": "unsigned", "order": xgen.BE, "dcal": dcal, "ccals": None}}


@st.composite
def gen_blob_doc(draw, focus=None):
    """focus="term": only terminated strings, UTF-8 and the 4-byte character sets weighted up, buffers long enough
    for a straddling pair plus a terminator (the sub-domain where the search position matters)."""
    names = list(pk.HEADER_NAMES)
    types = [_int_type(n, w) for n, w in zip(pk.HEADER_NAMES, pk.HEADER_WIDTHS)]
    fields = []
    offset = draw(st.integers(0, 7))
    is_str = True if focus else draw(st.booleans())
    form = draw(st.sampled_from(["fixed", "dyn", "dyn", "lookup"] + (["fixed", "fixed"] if focus else [])))
    if form in ("dyn", "lookup"):
        types.append(_int_type("LEN", draw(st.sampled_from([8, 8, 6, 4, 3]))))
        fields.append("LEN")
        if draw(st.booleans()):
            poly = {"t": "poly", "terms": draw(st.sampled_from([[[8.0, 1]], [[1.0, 1]], [[8.0, 1], [8.0, 0]],
                                                                [[2.0, 1], [1.0, 0]], [[1.0, 2]], [[0.5, 1]],
                                                                [[0.25, 1], [0.5, 0]]]))}
            types.append(_int_type("CLEN", draw(st.sampled_from([8, 5, 4, 3])), dcal=poly))
            fields.append("CLEN")
    if offset:
        types.append(_int_type("FILL", offset))
        fields.append("FILL")
    lo = 1 if is_str else 0

    def bits_value():
        if focus and draw(st.booleans()):
            return 8 * draw(st.integers(6, 24))
        return draw(st.one_of(st.integers(lo, 12).map(lambda x: 8 * x), st.integers(lo, 40), st.integers(lo, 400)))
    if form == "fixed":
        ln = {"t": "fixed", "bits": max(1, bits_value())}
    elif form == "dyn":
        ref = draw(st.sampled_from([f for f in fields if f in ("LEN", "CLEN")]))
        cal = draw(st.booleans())
        adj = None
        clen = [t for t in types if t["name"] == "CLEN_T"]
        fractional = ref == "CLEN" and cal and any(float(c) != int(c) for c, _ in clen[0]["enc"]["dcal"]["terms"])
        if fractional:
            # the calibrated reference may be fractional (e.g. a half-byte counter): the slope makes the length integral
            adj = {"slope": draw(st.sampled_from([8, 16, 4, 32])), "intercept": draw(st.sampled_from([0, 0, 8, 16]))}
        elif draw(st.integers(0, 2)):
            adj = {"slope": draw(st.sampled_from([8, 8, 1, 2, 16, 3, 0])), "intercept": draw(st.sampled_from([0, 0, 8, 16, 1, 5, 24]))}
            if is_str and adj["slope"] == 0 and adj["intercept"] == 0:
                adj["intercept"] = 8
        ln = {"t": "dyn", "ref": ref, "cal": cal, "adj": adj}
    else:
        entries = []
        for _ in range(draw(st.integers(1, 4))):
            ref = draw(st.sampled_from([f for f in fields if f in ("LEN", "CLEN")]))
            cal = draw(st.booleans())
            lit = str(draw(st.integers(0, 9)))
            if ref == "CLEN" and cal:
                lit = repr(float(draw(st.sampled_from([0, 1, 8, 16, 9, 3, 4, 24]))))
            cmps = [{"ref": ref, "op": draw(st.sampled_from(["==", "eq", "<=", "&gt;", "!=", "geq"])), "value": lit,
                     "cal": cal}]
            if draw(st.integers(0, 3)) == 0:
                cmps.append({"ref": "LEN", "op": draw(st.sampled_from(["!=", "<", ">="])),
                             "value": str(draw(st.integers(0, 9))), "cal": draw(st.booleans())})
            entries.append({"match": {"form": "cmp" if len(cmps) == 1 else "list", "cmps": cmps},
                            "value": max(1 if is_str else 0, bits_value())})
        if draw(st.integers(0, 3)):
            entries.append({"match": {"form": "cmp", "cmps": [{"ref": "LEN", "op": ">=", "value": "0", "cal": False}]},
                            "value": max(1, bits_value())})
        ln = {"t": "lookup", "entries": entries}
    if is_str:
        cs = draw(st.sampled_from(list(xdoc.CHARSETS) + (["UTF-8"] * 4 + ["UTF-32", "UTF-32", "UTF-32BE", "UTF-32LE", "UTF-16"] if focus else [])))
        enc = {"k": "str", "charset": cs, "order": draw(st.sampled_from([xgen.BE, xgen.LE])) if cs in xdoc.MULTIBYTE else None,
               "len": ln, "delim": None}
        kind = "term" if focus else draw(st.sampled_from(["none", "term", "term", "lead", "lead"]))
        if kind == "term":
            ch = draw(st.sampled_from(["\x00", "!", ";", "\n", "X", "\u00e9", "\u20ac", "\u2603", "\u2100"]))
            try:
                b = ch.encode(xdoc.codec_for(enc))
            except UnicodeEncodeError:
                b = "\x00".encode(xdoc.codec_for(enc))
            if cs != "UTF-8" and len(b) != xdoc.unit_bytes(enc):
                b = "\x00".encode(xdoc.codec_for(enc))
            enc["delim"] = {"t": "term", "hex": b.hex().upper() if draw(st.booleans()) else b.hex()}
        elif kind == "lead":
            enc["delim"] = {"t": "lead", "bits": draw(st.sampled_from([8, 8, 16, 16, 4, 12, 32, 5]))}
        types.append({"kind": "str", "name": "BLOB_T", "unit": None, "enc": enc})
    else:
        types.append({"kind": "bin", "name": "BLOB_T", "unit": None, "enc": {"k": "bin", "len": ln}})
    fields.append("BLOB")
    types.append(_int_type("SENTINEL", 16))
    fields.append("SENTINEL")
    params = [{"name": n, "type": n + "_T", "short": None, "long": None} for n in names + fields]
    return {"name": None, "date": "2020-01-01", "root": "CCSDSPacket", "types": types, "params": params,
            "containers": [{"name": "CCSDSPacket", "entries": [["p", n] for n in names + fields], "base": None,
                            "match": None, "abstract": False, "short": None, "long": None}]}


def cell_of(doc):
    t = [x for x in doc["types"] if x["name"] == "BLOB_T"]
    if not t:
        return None
    enc = t[0]["enc"]
    off = sum(x["enc"]["bits"] for x in doc["types"] if x["name"] == "FILL_T")
    form = enc["len"]["t"]
    if form == "dyn":
        form += "/" + ("cal" if enc["len"]["cal"] else "raw") + ("/adj" if enc["len"]["adj"] else "")
    if enc["k"] == "bin":
        return f"binary | {form} | offset%8={off}", enc, off
    d = enc.get("delim")
    return (f"{enc['charset']}{'/' + enc['order'][:5] if enc.get('order') else ''} | "
            f"{'none' if not d else d['t']} | {form} | offset%8={off}"), enc, off


def check_case(ctx, case):
    doc = case["doc"]
    packets = [bytes.fromhex(p) for p in case["packets"]]
    ctx.count()
    model = xref.Model(doc)
    expects = xcheck.expectations(model, packets)
    cell = cell_of(doc)
    if cell:
        label, enc, off = cell
        ctx.cls("cell: " + " | ".join(label.split(" | ")[:3]))
        ctx.cls(label.split(" | ")[-1])
    for ex in expects:
        ctx.cls("packet " + ex.label())
        if ex.res.unspecified:
            ctx.cls("unspecified (not asserted): " + ex.res.unspecified.split(":")[0])
        if cell and ex.kind == "yield" and cell[1]["k"] == "str" and (cell[1].get("delim") or {}).get("t") == "term":
            # would a search at the wrong positions give another answer? (terminator found by the documented
            # search vs by a byte-wise search vs by a search stepping the terminator's own width)
            raw = [r for n, _, r in ex.res.items if n == "BLOB"]
            t = bytes.fromhex(cell[1]["delim"]["hex"])
            if raw and isinstance(raw[0], bytes):
                def first(step):
                    return next((i for i in range(0, len(raw[0]) - len(t) + 1, step) if raw[0][i:i + len(t)] == t), None)
                ref = first(1 if cell[1]["charset"] == "UTF-8" else len(t))
                if first(1) != ref:
                    ctx.cls("terminator: a byte-wise search would stop earlier")
                    ctx.cls("terminator: a byte-wise search would stop earlier | " + cell[1]["charset"])
                if first(len(t)) != ref:
                    ctx.cls("terminator: a search stepping the terminator's width would miss it")
        for name, ln, form in ex.res.lengths:
            if name == "BLOB":
                nontriv = (cell and cell[2] != 0) or ln % 8 != 0 or form != "fixed" or \
                    (cell and cell[1]["k"] == "str" and xdoc.unit_bytes(cell[1]) > 1 and cell[1].get("delim"))
                if nontriv and ex.kind == "yield":
                    ctx.nontrivial((doc["types"][7:], ex.res.final_bits[:600]))
                    ctx.cls("nontrivial")
                ctx.cls("length not a whole number of bytes" if ln % 8 else "length a whole number of bytes")
    ctx.sample(cell[0].split(" | offset")[0] if cell else "free document",
               {"types": doc["types"][7:], "packets": case["packets"][:2], "route": case["route"]})
    try:
        defn = c01.get_definition(case)
    except Exception as e:
        return ctx.fail("load-raised", f"definition could not be obtained via {case['route']}: {e!r} [{exc_sig(e)}]",
                        case, bucket="load-raised:" + exc_sig(e))
    # one packet at a time so that a failing decode does not hide the following packets
    for p, ex in zip(packets, expects):
        out, exc, _ = xcheck.run(defn, p, 1)
        r = xcheck.compare_run([ex], out, exc, False, [p])
        if r:
            return ctx.fail(r[0], f"[route {case['route']}] packet {p.hex()[:200]}: {r[1]}",
                            dict(case, packets=[p.hex()]), bucket=r[0].split(" ")[0])
    return None


@st.composite
def gen_case(draw, template=True, focus=None):
    doc = draw(gen_blob_doc(focus)) if template else draw(xgen.gen_doc("blobs"))
    model = xref.Model(doc)
    n = draw(st.integers(2, 6))
    packets = [draw(xgen.gen_packet(doc, mutate=False, model=model)).hex() for _ in range(n)]
    return {"doc": doc, "packets": packets, "route": draw(st.sampled_from(["xml", "xml", "built"])),
            "opts": draw(c01.gen_opts())}


def part_generated(ctx, examples, template=True, focus=None):
    hyp_run(ctx, gen_case(template, focus), check_case, examples, shrink_budget=80 if ctx.tier == "quick" else 800, rounds=2)


PARTS = {"generated": part_generated}
REPLAY = {"generated": check_case}
KNOWN = {}
FLOORS = {"nontrivial": ("", 0.3), "packet clean": ("", 0.1), "length not a whole number of bytes": ("", 0.1),
          "terminator: a byte-wise search would stop earlier": ("", 0.002),
          "terminator: a search stepping the terminator's width would miss it": ("", 0.002)}


def plan(tier, seed):
    q = tier == "quick"
    tasks = []
    for i in range(16):
        tasks.append(("generated", {"examples": 250 if q else 5000, "template": i % 4 != 3,
                                    "focus": "term" if i % 4 == 2 else None}))
    return tasks
