#!/venv/bin/python
"""Prints a markdown table of what the committed evidence files record (one row per property)."""
import glob
import json
import os

VERIF = os.path.dirname(os.path.dirname(os.path.abspath(__file__)))


def main():
    print("| property | tier | evaluations | distinct non-trivial | exhaustive sub-domains | known findings seen | wall s |")
    print("|---|---|---|---|---|---|---|")
    for f in sorted(glob.glob(os.path.join(VERIF, "evidence", "C*.json"))):
        e = json.load(open(f))
        c = e["coverage"]
        dom = c.get("exhaustive_subdomains") or {}
        doms = "; ".join(f"{k}: {v}" for k, v in list(dom.items())[:2])
        if len(dom) > 2:
            doms += f"; ... ({len(dom)} sub-domains)"
        known = ", ".join(f"{k} x{v}" for k, v in (c.get("known_findings_seen") or {}).items()) or "-"
        print(f"| {e['property_id']} | {e['tier']} | {c['evaluations']} | {c['distinct_nontrivial']} | {doms or '-'} | "
              f"{known} | {e['wall_s']} |")


if __name__ == "__main__":
    main()
