"""C11 – packets are parsed independently; generators and definitions do not interfere."""
import io
import warnings

from hypothesis import strategies as st
from lxml import etree

from vf import c01, xcheck, xdoc, xgen, xref
from vf.runner import exc_sig, hyp_run

PROPERTY = "C11"
LEVEL = "exploration"
RULE = ("Histories and schedules. Hypothesis generates a definition (several branches, abstract dead ends, fixed "
        "layouts that short / long packets mismatch, dynamic-length layouts) and a pool of 1..14 packets synthesised "
        "from it (recognisable, unrecognisable, truncated, extended); then up to 4 generators over sub-sequences of the "
        "pool (with repetitions), each with its own combination of parse_bad_pkts, yield_unrecognized_packet_errors and "
        "ccsds_headers_only and a bytes or BytesIO source, and a schedule of up to 60 next() calls interleaving them in "
        "any order. Oracle (metamorphic: stream vs singletons): after EVERY step the items a generator has produced so "
        "far equal the expected prefix, where expected = concatenation, in stream order, of what a FRESH generator over "
        "each packet alone yields under the same options (error objects compared by type and partial data; if a "
        "singleton raises, the stream generator must raise the same exception type at that position and yield "
        "nothing after); in the same step the definition's structural dump and tostring(to_xml_tree()) must equal the "
        "snapshots taken before any parsing; every yielded object is a new object and is scribbled on by the harness after it has been "
        "recorded (a consumer may do anything with it). Additionally every stream's output under its own options is "
        "judged against the reference decoder (unrecognised packets must appear as error objects in their position "
        "whenever reporting is on, whatever the other options; length-mismatched packets are withheld exactly when "
        "bad packets are excluded), and every raw packet yielded with ccsds_headers_only=True is wrapped in a CCSDSPacket "
        "and parsed twice from the same object, which must give the same result twice. Non-trivial: >= 2 generators advanced in non-sequential order over a stream holding >= 1 "
        "packets of >= 2 different outcome kinds, one of them unrecognised or length-mismatched.")
ASSUMPTIONS = ["decoding errors common to stream and singleton are out of this check's reach (left to C01)"]
EXHAUSTIVE = {"quick": False, "thorough": False}


def sig_value(v):
    rv = getattr(v, "raw_value", None)

    def one(x):
        if isinstance(x, float):
            return ("f", "nan" if x != x else x.hex())
        if isinstance(x, bool):
            return ("bool", x)
        for b in (int, str, bytes):
            if isinstance(x, b):
                return (b.__name__, b(x))
        return ("?", repr(x))
    return (type(v).__name__, one(v), one(rv))


def sig_item(it):
    from space_packet_parser.exceptions import UnrecognizedPacketTypeError
    from space_packet_parser import packets
    if isinstance(it, UnrecognizedPacketTypeError):
        pd = it.partial_data
        return ("unrecognized", [(k, sig_value(v)) for k, v in (pd or {}).items()],
                bytes(pd.raw_data) if pd is not None else None)
    if isinstance(it, packets.CCSDSPacket):
        return ("packet", [(k, sig_value(v)) for k, v in it.items()], bytes(it.raw_data), it.raw_data.pos)
    if isinstance(it, bytes):
        return ("raw", bytes(it))
    return ("?", repr(it))


def scribble(item):
    """a consumer may do anything with what it was handed; nothing the library keeps may depend on it"""
    from space_packet_parser import packets
    from space_packet_parser.exceptions import UnrecognizedPacketTypeError
    if isinstance(item, UnrecognizedPacketTypeError):
        item = item.partial_data
    if isinstance(item, packets.CCSDSPacket):
        item.raw_data.pos = 3
        item.clear()
        item["SCRIBBLED"] = 1


def singleton(defn, pkt, opts):
    out, exc, _ = xcheck.run(defn, pkt, 1, **opts)
    return [sig_item(i) for i in out], (type(exc).__name__ if exc is not None else None)


def deep_state(obj, memo=None, depth=0):
    """generic canonical picture of every attribute reachable from an object (callables skipped), so that ANY state
    kept on the definition or its parts by parsing shows up, not only the modelled attributes"""
    if memo is None:
        memo = {}
    if isinstance(obj, (int, float, str, bytes, bool, type(None))):
        return repr(obj)
    if id(obj) in memo:
        return f"<ref {memo[id(obj)]}>"
    memo[id(obj)] = len(memo)
    if depth > 60:
        return "<deep>"
    if isinstance(obj, dict):
        return "{" + ",".join(f"{deep_state(k, memo, depth + 1)}:{deep_state(v, memo, depth + 1)}" for k, v in obj.items()) + "}"
    if isinstance(obj, (list, tuple)):
        return "[" + ",".join(deep_state(v, memo, depth + 1) for v in obj) + "]"
    if isinstance(obj, (set, frozenset)):
        return "set(" + ",".join(sorted(deep_state(v, memo, depth + 1) for v in obj)) + ")"
    if callable(obj):
        return "<callable>"
    d = getattr(obj, "__dict__", None)
    if d is None:
        return f"<{type(obj).__name__}>"
    return f"{type(obj).__name__}(" + ",".join(f"{k}={deep_state(v, memo, depth + 1)}" for k, v in sorted(d.items())) + ")"


def snapshot(defn):
    # deep_state(defn) is deliberately NOT part of the verdict: a benign lazily filled cache on the definition would
    # change it without changing the definition's meaning (what the property is about)
    return xdoc.lib_dump(defn), etree.tostring(defn.to_xml_tree())


def check_case(ctx, case):
    doc = case["doc"]
    packets = [bytes.fromhex(p) for p in case["packets"]]
    ctx.count()
    model = xref.Model(doc)
    expects = xcheck.expectations(model, packets)
    kinds = [e.label() for e in expects]
    try:
        defn = c01.get_definition(case)
        snap = snapshot(defn)
    except Exception as e:
        return ctx.fail("load-raised", f"definition could not be obtained / written: {e!r} [{exc_sig(e)}]", case,
                        bucket="load-raised:" + exc_sig(e))
    gens = []
    for g in case["gens"]:
        stream_pk = [packets[i % len(packets)] for i in g["indices"]]
        exp, stop_exc = [], None
        for p in stream_pk:
            items, exc = singleton(defn, p, g["opts"])
            exp.extend(items)
            if exc is not None:
                stop_exc = exc
                break
        stream = b"".join(stream_pk)
        src = stream if g["source"] == "bytes" else io.BytesIO(stream)
        gens.append({"exp": exp, "stop_exc": stop_exc, "got": [], "done": None, "labels": [kinds[i % len(packets)] for i in g["indices"]],
                     "gen": defn.packet_generator(src, **g["opts"]), "opts": g["opts"], "n": len(stream_pk)})
    order = [s % len(gens) for s in case["schedule"]]
    nonseq = any(order[i] != order[i + 1] for i in range(len(order) - 1)) and len(set(order)) >= 2
    mixed = any(len(set(l.split(":")[0].split("-")[0] for l in g["labels"])) >= 2 and
                any(l.startswith("unrecognized") or l == "length-mismatch" for l in g["labels"]) for g in gens)
    for g in gens:
        for l in set(g["labels"]):
            ctx.cls("stream holds: " + l.split(":")[0])
    if nonseq:
        ctx.cls("interleaved schedule")
    if mixed:
        ctx.cls("stream with mixed outcome kinds")
    if nonseq and mixed:
        ctx.nontrivial(case)
        ctx.cls("nontrivial")
    for g in case["gens"]:
        ctx.cls("options " + ",".join(k for k, v in g["opts"].items() if v) or "options none")
    ctx.sample("schedule", {"gens": [{"n": g["n"], "opts": g["opts"]} for g in gens], "schedule": order[:30],
                            "packet kinds": kinds[:8]})
    # absolute part: what each stream yields under its options, judged against the reference semantics (the
    # metamorphic part below cannot see an error that stream and singleton runs share, e.g. an unrecognised packet
    # that is not reported in its position under one particular option combination)
    for gi, g in enumerate(case["gens"]):
        if g["opts"]["ccsds_headers_only"] or not g["indices"]:
            continue
        idx = [i % len(packets) for i in g["indices"]]
        pk_g = [packets[i] for i in idx]
        out, exc, _ = xcheck.run(defn, b"".join(pk_g), len(pk_g), **g["opts"])
        r = xcheck.compare_run([expects[i] for i in idx], out, exc, g["opts"]["yield_unrecognized_packet_errors"], pk_g,
                               parse_bad=g["opts"]["parse_bad_pkts"])
        ctx.cls("streams judged against the reference")
        if r:
            return ctx.fail("stream-differs-from-reference",
                            f"generator {gi} (options {g['opts']}, {len(pk_g)} packets): {r[1]}", case,
                            bucket="ref:" + r[0].split(" ")[0])
    # raw packets handed out by the framer may be parsed on their own, more than once, with the same result
    from space_packet_parser import packets as _pk
    from space_packet_parser.exceptions import UnrecognizedPacketTypeError as _Unrec
    try:
        raws = list(defn.packet_generator(b"".join(packets), ccsds_headers_only=True))
    except Exception as e:
        return ctx.fail("headers-only-raised", f"packet_generator(ccsds_headers_only=True) raised {e!r}", case,
                        bucket="headers-only-raised:" + exc_sig(e))
    for i, raw in enumerate(raws[:len(packets)]):
        outs = []
        for _ in range(2):
            try:
                with warnings.catch_warnings():
                    warnings.simplefilter("ignore")
                    outs.append(sig_item(defn.parse_ccsds_packet(_pk.CCSDSPacket(raw_data=raw))))
            except _Unrec as e:
                outs.append(sig_item(e))
            except Exception as e:  # noqa: BLE001
                outs.append(("exc", type(e).__name__))
        ctx.cls("raw packets parsed twice")
        if outs[0] != outs[1] or bytes(raw) != packets[i]:
            return ctx.fail("reparse-differs", f"raw packet {i} ({packets[i].hex()[:60]}) parsed twice from the same "
                                               f"RawPacketData object: first {str(outs[0])[:300]}, second {str(outs[1])[:300]}",
                            case)
    seen_ids = {}
    for step, gi in enumerate(order):
        g = gens[gi]
        if g["done"] is not None:
            continue
        try:
            with warnings.catch_warnings():
                warnings.simplefilter("ignore")
                item = next(g["gen"])
            g["got"].append(sig_item(item))
            if id(item) in seen_ids:
                return ctx.fail("shared-object", f"generator {gi} at step {step} yielded an object that was already "
                                                 f"yielded before (generators / packets share state)", case)
            seen_ids[id(item)] = item   # keep it alive so that ids stay unique
            scribble(item)
        except StopIteration:
            g["done"] = "stop"
        except Exception as e:  # noqa: BLE001
            g["done"] = type(e).__name__
            g["exc"] = e
        ctx.cls("steps")
        k = len(g["got"])
        what = f"generator {gi} (options {g['opts']}, {g['n']} packets) at step {step}"
        if g["got"] != g["exp"][:k]:
            return ctx.fail("stream-differs-from-singletons",
                            f"{what}: item {k - 1} is {str(g['got'][-1])[:300]}, parsing the packets one by one gives "
                            f"{str(g['exp'][k - 1])[:300] if k <= len(g['exp']) else 'nothing more'}", case)
        if g["done"] == "stop" and (k != len(g["exp"]) or g["stop_exc"] is not None):
            return ctx.fail("stream-ends-early", f"{what}: ended after {k} items, the packets one by one give "
                                                 f"{len(g['exp'])} items" + (f" and then {g['stop_exc']}" if g["stop_exc"] else ""),
                            case)
        if g["done"] not in (None, "stop"):
            if g["stop_exc"] is None or g["done"] != g["stop_exc"] or k != len(g["exp"]):
                return ctx.fail("stream-raised", f"{what}: raised {g.get('exc')!r} [{exc_sig(g['exc'])}] after {k} items; "
                                                 f"one by one: {len(g['exp'])} items then {g['stop_exc']}", case,
                                bucket="stream-raised:" + exc_sig(g["exc"]))
        try:
            now = snapshot(defn)
        except Exception as e:
            return ctx.fail("definition-broken", f"after step {step}: the definition can no longer be dumped/written: {e!r}", case)
        if now[1] != snap[1] or xdoc.diff(now[0], snap[0]):
            return ctx.fail("definition-modified", f"after step {step} ({what}): the definition changed: "
                                                   f"{xdoc.diff(now[0], snap[0]) or 'serialisation differs'}", case)
    return None


@st.composite
def gen_case(draw, profile):
    doc = draw(xgen.gen_doc(profile))
    model = xref.Model(doc)
    npk = draw(st.integers(1, 8))
    packets = [draw(xgen.gen_packet(doc, model=model)) for _ in range(npk)]
    # derived variants so that one stream mixes recognisable, unrecognisable and wrong-length packets
    for p in list(packets):
        how = draw(st.sampled_from(["none", "apid", "append", "cut", "apid", "append"]))
        q = bytearray(p)
        if how == "apid":
            q[0] ^= draw(st.integers(0, 7))
            q[1] ^= draw(st.integers(1, 255))
        elif how == "append":
            q += bytes(draw(st.integers(1, 3)))
            q[4:6] = (len(q) - 7).to_bytes(2, "big")
        elif how == "cut" and len(q) > 8:
            q = q[:-1]
            q[4:6] = (len(q) - 7).to_bytes(2, "big")
        else:
            continue
        packets.append(bytes(q))
    packets = [p.hex() for p in packets]
    npk = len(packets)
    ngen = draw(st.integers(1, 4))
    gens = []
    for _ in range(ngen):
        nidx = draw(st.integers(0, 20))
        gens.append({"indices": draw(st.lists(st.integers(0, npk - 1), min_size=nidx, max_size=nidx)),
                     "opts": {"parse_bad_pkts": draw(st.booleans()), "yield_unrecognized_packet_errors": draw(st.booleans()),
                              "ccsds_headers_only": draw(st.integers(0, 5)) == 0},
                     "source": draw(st.sampled_from(["bytes", "bytesio"]))})
    nsteps = draw(st.integers(1, 60))
    schedule = draw(st.lists(st.integers(0, ngen - 1), min_size=nsteps, max_size=nsteps))
    return {"doc": doc, "packets": packets, "gens": gens, "schedule": schedule,
            "route": draw(st.sampled_from(["xml", "xml", "built"])), "opts": draw(c01.gen_opts())}


def part_generated(ctx, examples, profile):
    hyp_run(ctx, gen_case(profile), check_case, examples, shrink_budget=60 if ctx.tier == "quick" else 600, rounds=2)


PARTS = {"generated": part_generated}
REPLAY = {"generated": check_case}
KNOWN = {}
FLOORS = {"nontrivial": ("", 0.08), "interleaved schedule": ("", 0.2)}


def plan(tier, seed):
    q = tier == "quick"
    return [("generated", {"examples": 64 if q else 2000, "profile": ["full", "trees", "lengths", "trees"][i % 4]})
            for i in range(16)]
