"""C10 – framing terminates on every finite source and yields only complete packets."""
import io
import os
import tempfile

from hypothesis import strategies as st

from vf import pk
from vf.runner import exc_sig, hyp_run

PROPERTY = "C10"
LEVEL = "fault_enumeration"
RULE = ("Fault enumeration: Hypothesis generates valid packet streams (1..6 packets, data 1..40 bytes, arbitrary header "
        "words, prefix k in {0,1,4} foreign bytes per packet) and EVERY cut offset 0..len of each stream is taken (the "
        "producer dying at that byte) (for streams holding a packet of 4-64 kB: every offset within 8 bytes of a packet boundary plus drawn offsets) x source kinds {bytes, BytesIO, real file, short-reading file object, scripted "
        "socket whose recv returns b'' after the last chunk (peer closed)} with read sizes rotating over {default, 1, "
        "5, 7, 4096}, with the documented progress display (show_progress) off and on, through ccsds_generator and "
        "through packet_generator of a header-only definition. Plus arbitrary "
        "byte strings of 0..200 bytes with k in 0..8 through every source kind, and (thorough) an atheris/libFuzzer "
        "campaign over (source kind, read size, k, bytes). Oracle (validity predicate over the history of yields): "
        "iteration ends within len//7+2 items and without polling an exhausted source more than that many times; no "
        "exception escapes; every item has len == 7 + its own length field; items are consecutive slices of the input, "
        "each preceded by k skipped bytes; the unconsumed remainder is shorter than one complete packet. Warnings are "
        "allowed. Non-trivial: cut strictly inside a header or body, empty input, or socket end-of-stream; distinct by "
        "hash of (stream, k, cut, kind, read size).")
ASSUMPTIONS = ["a socket.socket subclass overriding recv is an admissible socket (the framer only calls recv(n)); "
               "recv returning b'' means the peer closed the connection",
               "termination is decided by a progress argument (items <= bytes/7, polls of an exhausted source bounded), "
               "never by a timeout"]
EXHAUSTIVE = {"quick": False, "thorough": False}

KINDS = ("bytes", "bytesio", "file", "short", "socket")
READ_SIZES = (None, 1, 5, 7, 4096)
_tmpdir = None


def tmpdir():
    global _tmpdir
    if _tmpdir is None:
        _tmpdir = tempfile.mkdtemp(prefix="vf_c10_")
        import atexit
        import shutil
        atexit.register(shutil.rmtree, _tmpdir, True)
    return _tmpdir


_DEFN = []


def _definition():
    if not _DEFN:
        _DEFN.append(pk.header_only_definition())
    return _DEFN[0]


class Source:
    def __init__(self, kind, data, sched, cap):
        self.kind, self.fh, self.path = kind, None, None
        if kind == "bytes":
            self.obj = data
        elif kind == "bytesio":
            self.obj = io.BytesIO(data)
        elif kind == "file":
            fd, self.path = tempfile.mkstemp(dir=tmpdir())
            with os.fdopen(fd, "wb") as f:
                f.write(data)
            self.fh = open(self.path, "rb")
            self.obj = self.fh
        elif kind == "short":
            self.obj = pk.ShortReader(data, sched, max_empty=cap)
        elif kind == "socket":
            self.obj = pk.ScriptedSocket(data, sched, end=True, max_empty=cap)
        else:
            raise ValueError(kind)

    def close(self):
        if self.fh:
            self.fh.close()
        if self.path:
            os.unlink(self.path)
        if self.kind == "socket":
            self.obj.close()


def drive(data, k, kind, rs, route, sched=(), progress=False):
    """returns (items as bytes, ended, exception or None)"""
    import contextlib
    import warnings
    from space_packet_parser import packets
    cap = len(data) // 7 + 2
    src = Source(kind, data, list(sched), cap + 3)
    items, ended, exc = [], False, None
    try:
        with warnings.catch_warnings(), contextlib.redirect_stdout(io.StringIO()):
            warnings.simplefilter("ignore")
            kwargs = {"skip_header_bytes": k}
            if progress:
                kwargs["show_progress"] = True   # a documented option: the progress display must not change framing
            if rs is not None:
                kwargs["buffer_read_size_bytes"] = rs
            if route == "ccsds":
                gen = packets.ccsds_generator(src.obj, **kwargs)
            else:
                gen = _definition().packet_generator(src.obj, parse_bad_pkts=True, **kwargs)
            try:
                for n, it in enumerate(gen):
                    items.append(bytes(it) if route == "ccsds" else bytes(it.raw_data))
                    if n >= cap:
                        break
                else:
                    ended = True
            except pk.NonTermination as e:
                exc = e
            except Exception as e:  # noqa: BLE001 - "no internal error escapes" is part of the property
                exc = e
    finally:
        src.close()
    return items, ended, exc


def judge(data, k, items, ended, exc):
    """validity predicate; returns None or (kind, detail)"""
    if isinstance(exc, pk.NonTermination):
        return "no-termination", f"framer keeps polling an exhausted source: {exc}"
    if exc is not None:
        return "raised:" + exc_sig(exc), f"exception escaped: {exc!r}"
    off = 0
    for i, it in enumerate(items):
        if len(it) < 7 or len(it) != 7 + int.from_bytes(it[4:6], "big"):
            return "incomplete-item", (f"item {i} has {len(it)} bytes"
                                       + (f", its length field declares {7 + int.from_bytes(it[4:6], 'big')}"
                                          if len(it) >= 6 else "") + f" (items so far {i}, input {len(data)} bytes)")
        if data[off + k:off + k + len(it)] != it:
            return "not-a-slice", f"item {i} ({it[:12].hex()}...) is not input[{off + k}:{off + k + len(it)}]"
        off += k + len(it)
    if not ended:
        return "no-termination", f"more than {len(data) // 7 + 2} items from {len(data)} input bytes"
    rem = data[off:]
    if len(rem) >= k + 6 and len(rem) >= k + pk.declared_len(rem, k):
        return "stopped-early", (f"{len(rem)} unconsumed bytes at offset {off} hold a complete packet of "
                                 f"{pk.declared_len(rem, k)} bytes (k={k}); yielded {len(items)} items")
    return None


def stream_of(case):
    out = b""
    bounds = [0]
    for p in case["packets"]:
        pre = bytes.fromhex(p["pre"])
        body = bytes.fromhex(p["data"])
        out += pre + bytes.fromhex(p["hdr"]) + (len(body) - 1).to_bytes(2, "big") + body
        bounds.append(len(out))
    return out, bounds


def check_one(ctx, case, full, bounds, cut, kind, rs, route, sched=(), progress=False):
    k = case["k"]
    data = full[:cut]
    ctx.count()
    inside = cut not in bounds
    label = "cut inside a packet" if inside else ("empty input" if cut == 0 else "cut on a packet boundary")
    ctx.cls(label)
    ctx.cls(f"kind {kind}")
    if inside or cut == 0 or kind == "socket":
        ctx.nontrivial((case["packets"], k, cut, kind, rs, route))
    if progress:
        ctx.cls("show_progress=True")
    items, ended, exc = drive(data, k, kind, rs, route, sched, progress)
    r = judge(data, k, items, ended, exc)
    if r is None and not inside:
        # cut exactly on a packet boundary: all preceding packets are yielded
        want = bounds.index(cut)
        if len(items) != want:
            r = ("boundary-count", f"stream cut on the boundary after packet {want}: {len(items)} items yielded")
    if r:
        only = {"cut": cut, "kind": kind, "rs": rs, "route": route, "sched": list(sched), "progress": progress}
        ctx.fail(r[0], f"{kind} source, read size {rs}, k={k}, route {route}, show_progress={progress}, stream of {len(full)} bytes cut at "
                       f"{cut}: {r[1]}", dict(case, only=only), bucket=f"{r[0]}|{kind}|{route}")
        return False
    return True


def check_stream(ctx, case):
    full, bounds = stream_of(case)
    ctx.sample("stream", case)
    only = case.get("only")
    if only:
        return check_one(ctx, case, full, bounds, only["cut"], only["kind"], only["rs"], only["route"],
                         only.get("sched", ()), only.get("progress", False))
    kinds = case.get("kinds", KINDS)
    cuts = range(len(full) + 1)
    if "cuts" in case:  # big streams: all offsets near every packet boundary and the drawn ones, not all
        near = {b + d for b in bounds for d in range(-8, 9)}
        cuts = sorted(c for c in near | {c % (len(full) + 1) for c in case["cuts"]} if 0 <= c <= len(full))
    for cut in cuts:
        for ki, kind in enumerate(kinds):
            rs = READ_SIZES[(cut + ki) % len(READ_SIZES)]
            sched = case["sched"][cut % len(case["sched"]):] if case["sched"] else ()
            if not check_one(ctx, case, full, bounds, cut, kind, rs, "ccsds", sched, progress=(cut + 2 * ki) % 7 == 0):
                return
        kind = kinds[cut % len(kinds)]
        if not check_one(ctx, case, full, bounds, cut, kind, READ_SIZES[cut % len(READ_SIZES)], "pgen",
                         progress=cut % 5 == 3):
            return


def check_arbitrary(ctx, case):
    data = bytes.fromhex(case["data"])
    k = case["k"]
    ctx.sample("arbitrary", case)
    for ki, kind in enumerate(KINDS):
        rs = case["rs"][ki % len(case["rs"])]
        for route in ("ccsds", "pgen"):
            ctx.count()
            ctx.cls("arbitrary bytes")
            ctx.nontrivial((case["data"], k, kind, rs, route))
            items, ended, exc = drive(data, k, kind, rs, route, case["sched"])
            r = judge(data, k, items, ended, exc)
            if r:
                ctx.fail(r[0], f"{kind} source, read size {rs}, k={k}, route {route}, arbitrary input "
                               f"{data[:40].hex()} ({len(data)} bytes): {r[1]}", case, bucket=f"{r[0]}|{kind}|{route}")
                return


@st.composite
def gen_stream(draw, kinds=KINDS):
    k = draw(st.sampled_from([0, 0, 1, 4]))
    n = draw(st.integers(1, 6))
    pkts = []
    for _ in range(n):
        ln = draw(st.one_of(st.integers(1, 8), st.integers(1, 40)))
        pkts.append({"pre": draw(st.binary(min_size=k, max_size=k)).hex(),
                     "hdr": draw(st.one_of(st.binary(min_size=4, max_size=4),
                                           st.just(b"\x00\x00\xc0\x00"), st.just(b"\xff\xff\xff\xff"))).hex(),
                     "data": draw(st.one_of(st.binary(min_size=ln, max_size=ln), st.just(b"\x00" * ln),
                                            st.just(b"\xff" * ln))).hex()})
    sched = draw(st.lists(st.integers(1, 9), max_size=12))
    return {"k": k, "packets": pkts, "sched": sched, "kinds": list(kinds)}


@st.composite
def gen_big_stream(draw):
    case = draw(gen_stream())
    case["packets"] = case["packets"][:3]
    i = draw(st.integers(0, len(case["packets"]) - 1))
    ln = draw(st.sampled_from([4083, 4090, 4096, 4097, 5000, 9000, 65536]))
    case["packets"][i]["data"] = (bytes([draw(st.integers(0, 255))]) * ln).hex()
    case["cuts"] = draw(st.lists(st.integers(0, 80000), min_size=5, max_size=20))
    return case


@st.composite
def gen_arbitrary(draw):
    data = draw(st.one_of(st.binary(max_size=200), st.binary(max_size=20),
                          st.builds(lambda a, n, b: a + (n).to_bytes(2, "big") + b, st.binary(min_size=4, max_size=4),
                                    st.integers(0, 30), st.binary(max_size=40))))
    return {"data": data.hex(), "k": draw(st.integers(0, 8)),
            "rs": draw(st.lists(st.sampled_from(READ_SIZES + (2, 3, 6, 8, 13)), min_size=1, max_size=5)),
            "sched": draw(st.lists(st.integers(1, 9), max_size=12))}


def part_cuts(ctx, examples, kinds=KINDS):
    hyp_run(ctx, gen_stream(kinds), check_stream, examples)


def part_bigcuts(ctx, examples):
    hyp_run(ctx, gen_big_stream(), check_stream, examples)


def part_arbitrary(ctx, examples):
    hyp_run(ctx, gen_arbitrary(), check_arbitrary, examples)


def part_fixed(ctx):
    """hand-picked end-of-data situations, every kind, every read size, both routes"""
    p1 = pk.mkpacket(5, b"\x01\x02\x03")
    p2 = pk.mkpacket(6, b"\xaa" * 7, seqcount=9)
    streams = [b"", b"\x00", p1[:5], p1[:6], p1[:7], p1[:-1], p1, p1 + p2[:3], p1 + p2[:6], p1 + p2[:-1], p1 + p2,
               b"\xff" * 6, b"\xff" * 13]
    n = 0
    for data in streams:
        for kind in KINDS:
            for rs in READ_SIZES:
                for route in ("ccsds", "pgen"):
                    for progress in (False, True):
                        case = {"data": data.hex(), "k": 0, "rs": [rs], "sched": [], "fixed": [kind, route],
                                "progress": progress}
                        ctx.count()
                        n += 1
                        ctx.cls("fixed situations")
                        ctx.nontrivial_distinct()
                        items, ended, exc = drive(data, 0, kind, rs, route, (), progress)
                        r = judge(data, 0, items, ended, exc)
                        if r:
                            ctx.fail(r[0], f"{kind} source, read size {rs}, route {route}, show_progress={progress}, "
                                           f"input {data.hex()}: {r[1]}", case, bucket=f"{r[0]}|{kind}|{route}")
    ctx.domain("hand-picked end-of-data situations x kinds x read sizes x routes", n)


def part_big(ctx):
    """one stream beyond the framer's 20 MB buffer-trim threshold, read in chunks: complete, cut inside the last
    packet and cut inside a packet just after the trim point"""
    pkts = [pk.mkpacket(i % 2048, bytes([i & 0xFF]) * 65536, seqcount=i) for i in range(330)]
    full = b"".join(pkts)
    n = 0
    for cut in (len(full), len(full) - 3, 307 * 65542 + 10):
        for kind, rs in (("bytesio", 100000), ("bytesio", 65542), ("socket", 4096), ("bytes", None), ("bytesio", None)):
            data = full[:cut]
            ctx.count()
            n += 1
            ctx.cls("beyond 20 MB")
            ctx.nontrivial_distinct()
            items, ended, exc = drive(data, 0, kind, rs, "ccsds")
            r = judge(data, 0, items, ended, exc)
            if r is None and len(items) != cut // 65542:
                r = ("boundary-count", f"{len(items)} items yielded, {cut // 65542} complete packets in the stream")
            if r:
                ctx.fail(r[0], f"{kind} source, read size {rs}, 330 x 65536-byte packets cut at {cut}: {r[1]}",
                         {"big": True, "cut": cut, "kind": kind, "rs": rs}, bucket=f"{r[0]}|big|{kind}")
    ctx.domain("big stream x cuts x chunked sources", n)
    ctx.sample("big", {"bytes": len(full), "cuts": 3})


def replay_fixed(ctx, case):
    if case.get("big"):
        return part_big(ctx)
    if "fixed" in case:
        kind, route = case["fixed"]
        data = bytes.fromhex(case["data"])
        ctx.count()
        items, ended, exc = drive(data, case["k"], kind, case["rs"][0], route, case.get("sched", ()),
                                  case.get("progress", False))
        r = judge(data, case["k"], items, ended, exc)
        if r:
            ctx.fail(r[0], f"{kind} source, route {route}, input {data.hex()}: {r[1]}", case,
                     bucket=f"{r[0]}|{kind}|{route}")
        return
    check_arbitrary(ctx, case)


def part_fuzz(ctx, runs, seed):
    """atheris/libFuzzer supplement (thorough): bytes decoded into (kind, read size, k, stream)."""
    import subprocess
    import sys
    here = os.path.dirname(os.path.abspath(__file__))
    out = tempfile.mkdtemp(prefix="vf_c10_fuzz_")
    try:
        env = dict(os.environ)
        cmd = [sys.executable, os.path.join(here, "fuzz_c10.py"), out, f"-runs={runs}", f"-seed={seed}",
               "-max_len=256", "-verbosity=0", "-print_final_stats=1", f"-artifact_prefix={out}/"]
        try:
            r = subprocess.run(cmd, capture_output=True, text=True, env=env, timeout=3000)
        except subprocess.TimeoutExpired:
            ctx.note("atheris supplement hit its time budget: inconclusive, not a violation")
            return
        text = r.stdout + r.stderr
        if "ATHERIS-UNAVAILABLE" in text:
            ctx.note("atheris not importable: fuzzing supplement skipped")
            return
        done = [ln for ln in text.splitlines() if "stat::number_of_executed_units" in ln]
        n = int(done[0].split()[-1]) if done else 0
        ctx.count(n)
        ctx.cls("atheris executions", n)
        ctx.nontrivial_distinct(n)
        ctx.note(f"atheris: {n} executions, seed {seed}")
        crash = os.path.join(out, "violation.json")
        if os.path.exists(crash):
            import json
            with open(crash) as f:
                c = json.load(f)
            ctx.fail(c["kind"], c["detail"], c["case"], bucket=c["kind"] + "|fuzz")
        elif r.returncode != 0:
            ctx.note(f"atheris exited {r.returncode} without a recorded violation: {text[-300:]}")
    finally:
        import shutil
        shutil.rmtree(out, ignore_errors=True)


PARTS = {"big": part_big, "cuts": part_cuts, "bigcuts": part_bigcuts, "arbitrary": part_arbitrary, "fixed": part_fixed, "fuzz": part_fuzz}
REPLAY = {"big": replay_fixed, "cuts": check_stream, "bigcuts": check_stream, "arbitrary": check_arbitrary, "fixed": replay_fixed, "fuzz": check_arbitrary}
KNOWN = {}
FLOORS = {"cut inside a packet": ("", 0.2)}


def plan(tier, seed):
    tasks = [("fixed", {}), ("big", {})]
    if tier == "quick":
        for _ in range(12):
            tasks.append(("cuts", {"examples": 25}))
        for _ in range(2):
            tasks.append(("arbitrary", {"examples": 600}))
            tasks.append(("bigcuts", {"examples": 12}))
        tasks.append(("fuzz", {"runs": 60000, "seed": seed}))
    else:
        for _ in range(24):
            tasks.append(("cuts", {"examples": 400}))
        for _ in range(6):
            tasks.append(("arbitrary", {"examples": 15000}))
            tasks.append(("bigcuts", {"examples": 300}))
        for i in range(2):
            tasks.append(("fuzz", {"runs": 1000000, "seed": seed * 10 + i + 1}))
    return tasks
