"""C09 – writing a definition to XTCE XML and loading it back preserves its meaning."""
import io
import os
import tempfile
from pathlib import Path

from hypothesis import strategies as st
from lxml import etree

from vf import c01, xcheck, xdoc, xgen, xref
from vf.runner import exc_sig, hyp_run

PROPERTY = "C09"
LEVEL = "exploration"
RULE = ("Hypothesis generates full-feature documents (every attribute that has a default also takes non-default "
        "values: byte order, selector flags, extrapolate, order, abstract, operator spelling, encoding names, time scale "
        "/ offset / units / epoch, descriptions, base containers with and without restriction criteria). Two routes: "
        "D = load(own rendering of M) and D = built from objects. X = tostring(D.to_xml_tree()) and D.write_xml(path); "
        "D' = load(X). Oracle: dump(D) == dump(D') with the harness's independent structural dumper (entry order, "
        "every encoding attribute, calibrators with all coefficients and knots, criteria trees with AND/OR kept apart, "
        "length specifications WITH the linear adjusters probed at x = 0, 1, 2, 7, 1000, enumerations, units, "
        "descriptions, base, abstract, inheritor sets), for the XML route additionally dump(D) == model_dump(M) (an "
        "expectation that never touched the library); then identical decoding: synthesised packets reaching the "
        "document's containers (plus unrecognised and mismatched ones) must give equal outcomes under D and D' "
        "(items, values bit-for-bit, raw values, types, exception type). An exception from writing or re-loading is a "
        "violation. Non-trivial: the document has >= 1 non-default attribute value and >= 1 length adjuster, criterion "
        "or calibrator; distinct by document hash.")
ASSUMPTIONS = ["an empty description or unit means 'absent' (the bundled documents carry shortDescription=\"\")",
               "time types carry their scale/offset as the XTCE Encoding attributes (a general polynomial on a time "
               "type is outside the representable subset)"]
EXHAUSTIVE = {"quick": False, "thorough": False}


def reload(defn, data):
    from space_packet_parser.xtce import definitions
    return definitions.XtcePacketDefinition.from_xtce(io.BytesIO(data), xtce_ns_prefix=defn.xtce_ns_prefix,
                                                      root_container_name=defn.root_container_name)


def outcome_signature(defn, pkt):
    """comparable description of what a definition does with one packet"""
    from space_packet_parser.exceptions import UnrecognizedPacketTypeError
    import math
    out, exc, msgs = xcheck.run(defn, pkt, 1, yield_unrecognized_packet_errors=True)

    def val(v):
        rv = getattr(v, "raw_value", None)

        def one(x):
            if isinstance(x, float):
                return ("f", "nan" if x != x else x.hex())
            if isinstance(x, (bytes, str, int)):
                return (type(x).__mro__[-2].__name__ if not isinstance(x, bool) else "bool", x if not isinstance(x, int) else int(x))
            return ("?", repr(x))
        return (type(v).__name__, one(v), one(rv))
    items = []
    for it in out:
        if isinstance(it, UnrecognizedPacketTypeError):
            items.append(("unrecognized", [(k, val(v)) for k, v in (it.partial_data or {}).items()]))
        else:
            items.append(("packet", [(k, val(v)) for k, v in it.items()], it.raw_data.pos))
    return {"items": items, "exc": type(exc).__name__ if exc else None,
            "mismatch_warning": any(xcheck.MISMATCH_TEXT in m for m in msgs)}


def doc_nondefault(doc):
    js = repr(doc)
    return any(x in js for x in ("leastSignificantByteFirst", "'cal': False", "'extrapolate': True", "'order': 1",
                                 "'abstract': True", "twosComplement", "signed", "MILSTD", "'scale'", "'lcal': False"))


def check_case(ctx, case, want_model_dump=True):
    doc = case["doc"]
    ctx.count()
    feats = c01.doc_features(doc)
    for f in feats:
        ctx.cls("doc: " + f)
    ctx.cls("route " + case["route"])
    if doc_nondefault(doc) and (feats & {"calibrator", "context-calibrator", "criteria-beyond-one-equality"}
                                or any(f.startswith("dynamic") for f in feats)):
        ctx.nontrivial(doc)
        ctx.cls("nontrivial")
    ctx.sample("doc", {"containers": [c["name"] for c in doc["containers"]], "types": len(doc["types"]),
                       "route": case["route"], "opts": case.get("opts")})
    try:
        d0 = c01.get_definition(case)
    except Exception as e:
        return ctx.fail("load-raised", f"definition could not be obtained via {case['route']}: {e!r} [{exc_sig(e)}]",
                        case, bucket="load-raised:" + exc_sig(e))
    try:
        dump0 = xdoc.lib_dump(d0)
    except xdoc.DumpError as e:
        return ctx.fail("dump", f"definition from {case['route']}: {e}", case)
    md = xdoc.model_dump(doc)
    df = xdoc.diff(dump0, md)
    if df:
        return ctx.fail("model-mismatch", f"definition obtained via {case['route']} differs from the model: {df}", case,
                        bucket="model-mismatch:" + case["route"] + ":" + df.split(":")[0].split("/")[-1])
    try:
        x1 = etree.tostring(d0.to_xml_tree())
    except Exception as e:
        return ctx.fail("write-raised", f"to_xml_tree raised {e!r} [{exc_sig(e)}]", case, bucket="write-raised:" + exc_sig(e))
    tmp = tempfile.mkdtemp(prefix="vf_c09_")
    try:
        p = Path(tmp) / "out.xml"
        try:
            d0.write_xml(p)
            x2 = p.read_bytes()
        except Exception as e:
            return ctx.fail("write-raised", f"write_xml raised {e!r} [{exc_sig(e)}]", case,
                            bucket="write_xml-raised:" + exc_sig(e))
    finally:
        import shutil
        shutil.rmtree(tmp, ignore_errors=True)
    for label, data in (("to_xml_tree", x1), ("write_xml", x2)):
        try:
            d1 = reload(d0, data)
        except Exception as e:
            return ctx.fail("reload-raised", f"loading the XML written by {label} raised {e!r} [{exc_sig(e)}]", case,
                            bucket="reload-raised:" + exc_sig(e))
        try:
            dump1 = xdoc.lib_dump(d1)
        except xdoc.DumpError as e:
            return ctx.fail("dump", f"re-loaded definition: {e}", case)
        df = xdoc.diff(dump0, dump1)
        if df:
            return ctx.fail("roundtrip-differs", f"after {label} + load: {df}", case,
                            bucket="roundtrip-differs:" + df.split(":")[0].split("/")[-1].split("[")[0])
    # identical decoding
    for ph in case["packets"]:
        pkt = bytes.fromhex(ph)
        a = outcome_signature(d0, pkt)
        b = outcome_signature(d1, pkt)
        ctx.cls("decoded packets")
        if a != b:
            return ctx.fail("decoding-differs", f"packet {ph[:120]}: before {str(a)[:500]} after {str(b)[:500]}",
                            dict(case, packets=[ph]))
    # a definition that has been used for decoding is written the same way: same structure after a reload, and (no
    # packet having changed it) the same document as before
    try:
        x3 = etree.tostring(d0.to_xml_tree())
        d3 = reload(d0, x3)
        dump3 = xdoc.lib_dump(d3)
    except Exception as e:
        return ctx.fail("write-after-use-raised", f"writing / re-loading the definition after it decoded "
                                                  f"{len(case['packets'])} packets raised {e!r} [{exc_sig(e)}]", case,
                        bucket="write-after-use-raised:" + exc_sig(e))
    df = xdoc.diff(dump0, dump3)
    if df:
        return ctx.fail("roundtrip-differs-after-use", f"the definition written after it decoded {len(case['packets'])} "
                                                       f"packets differs: {df}", case,
                        bucket="roundtrip-differs-after-use:" + df.split(":")[0].split("/")[-1].split("[")[0])
    if x3 != x1:
        return ctx.fail("written-form-changed-by-use", "the document written after decoding differs from the one "
                                                       "written before", case)
    ctx.cls("written again after decoding")
    return None


@st.composite
def gen_case(draw, profile="full"):
    doc = draw(xgen.gen_doc(profile))
    model = xref.Model(doc)
    n = draw(st.integers(2, 8))
    packets = [draw(xgen.gen_packet(doc, model=model)).hex() for _ in range(n)]
    return {"doc": doc, "packets": packets, "route": draw(st.sampled_from(["xml", "built"])), "opts": draw(c01.gen_opts())}


def part_generated(ctx, examples, profile="full"):
    hyp_run(ctx, gen_case(profile), check_case, examples, shrink_budget=80 if ctx.tier == "quick" else 800, rounds=3)


PARTS = {"generated": part_generated}
REPLAY = {"generated": check_case}
KNOWN = {}
FLOORS = {"nontrivial": ("", 0.3)}


def plan(tier, seed):
    q = tier == "quick"
    tasks = []
    for i in range(16):
        prof = ["full", "full", "blobs", "trees", "full", "lengths", "full", "blobs"][i % 8]
        tasks.append(("generated", {"examples": 80 if q else 1500, "profile": prof}))
    return tasks
