"""Packet helpers shared by the checks: own header layout, header-only definition, termination guard,
scripted sources."""
import io
import socket
import warnings
from itertools import islice

HEADER_WIDTHS = (3, 1, 1, 11, 2, 14, 16)
HEADER_NAMES = ("VERSION", "TYPE", "SEC_HDR_FLG", "PKT_APID", "SEQ_FLGS", "SRC_SEQ_CTR", "PKT_LEN")


def header(version, ptype, shflag, apid, seqflags, seqcount, length_field) -> bytes:
    bits = f"{version:03b}{ptype:01b}{shflag:01b}{apid:011b}{seqflags:02b}{seqcount:014b}{length_field:016b}"
    assert len(bits) == 48, bits
    return int(bits, 2).to_bytes(6, "big")


def mkpacket(apid, data: bytes, *, seqflags=3, seqcount=0, version=0, ptype=0, shflag=0, length_field=None) -> bytes:
    if length_field is None:
        length_field = len(data) - 1
    return header(version, ptype, shflag, apid, seqflags, seqcount, length_field) + data


def declared_len(buf: bytes, at: int = 0) -> int:
    """total packet length declared by the 6-byte header at buf[at:]"""
    return 7 + int.from_bytes(buf[at + 4:at + 6], "big")


def header_params(names=HEADER_NAMES):
    from space_packet_parser.xtce import encodings, parameter_types, parameters
    out = []
    for name, w in zip(names, HEADER_WIDTHS):
        t = parameter_types.IntegerParameterType(name + "_Type", encodings.IntegerDataEncoding(w, "unsigned"))
        out.append(parameters.Parameter(name, t))
    return out


def header_only_definition(names=HEADER_NAMES):
    from space_packet_parser.xtce import containers, definitions
    root = containers.SequenceContainer("CCSDSPacket", header_params(names))
    return definitions.XtcePacketDefinition([root], root_container_name="CCSDSPacket")


class NonTermination(Exception):
    pass


def bounded(gen, total_len: int, extra: int = 0):
    """Consume a generator that frames a finite input of total_len bytes. A complete CCSDS packet has at least
    7 bytes, so more than total_len//7 + 2 items proves that some item is not a complete consecutive slice:
    a deterministic verdict, not a timeout. Returns (items, ended: bool)."""
    cap = total_len // 7 + 2 + extra
    items = list(islice(gen, cap + 1))
    if len(items) > cap:
        return items, False
    return items, True


class ScriptedSocket(socket.socket):
    """A socket whose recv() hands out a fixed byte string in pre-chosen chunks (never more than asked for);
    after the script it returns b'' (peer closed) – or raises Exhausted when `end` is False, which tells the
    harness that the framer asked for more than the stream holds."""

    class Exhausted(Exception):
        pass

    def __init__(self, data: bytes, cuts, end=True, max_empty=None):
        super().__init__(socket.AF_INET, socket.SOCK_STREAM)
        self._data = data
        self._cuts = list(cuts)
        self._off = 0
        self._end = end
        self.empty_reads = 0
        self.max_empty = max_empty
        self.recv_calls = 0

    def recv(self, n, flags=0):
        self.recv_calls += 1
        if self._off >= len(self._data):
            if not self._end:
                raise ScriptedSocket.Exhausted()
            self.empty_reads += 1
            if self.max_empty is not None and self.empty_reads > self.max_empty:
                raise NonTermination(f"source polled {self.empty_reads} times after its end")
            return b""
        want = self._cuts.pop(0) if self._cuts else n
        want = max(1, min(want, n, len(self._data) - self._off))
        out = self._data[self._off:self._off + want]
        self._off += want
        return out


class ShortReader(io.BufferedIOBase):
    """A binary file object whose read(n) returns between 1 and n bytes (short, never empty before EOF)."""

    def __init__(self, data: bytes, sizes, max_empty=None):
        self._b = io.BytesIO(data)
        self._sizes = list(sizes)
        self.empty_reads = 0
        self.max_empty = max_empty

    def seek(self, *a):
        return self._b.seek(*a)

    def tell(self):
        return self._b.tell()

    def readable(self):
        return True

    def seekable(self):
        return True

    def read(self, n=-1):
        left = len(self._b.getbuffer()) - self._b.tell()
        if left == 0:
            self.empty_reads += 1
            if self.max_empty is not None and self.empty_reads > self.max_empty:
                raise NonTermination(f"source polled {self.empty_reads} times after its end")
            return b""
        k = self._sizes.pop(0) if self._sizes else (n if n and n > 0 else left)
        if n is not None and n > 0:
            k = min(k, n)
        return self._b.read(max(1, min(k, left)))


def quiet(fn, *a, **kw):
    """run fn with warnings recorded; returns (result, [warning messages])"""
    with warnings.catch_warnings(record=True) as w:
        warnings.simplefilter("always")
        r = fn(*a, **kw)
    return r, [str(x.message) for x in w]
