"""C18 – the xarray dataset holds every parsed value, per APID, in order, without loss."""
import math
import os
import shutil
import tempfile
import warnings

from hypothesis import strategies as st

from vf import c01, pk, xdoc, xgen, xref
from vf.runner import exc_sig, hyp_run

PROPERTY = "C18"
LEVEL = "exploration"
RULE = ("Hypothesis generates 'flat' definitions: abstract root + one concrete child per APID (1..4 APIDs), each with a "
        "fixed layout drawn from every parameter type and encoding (unsigned / signed integers 1..72 bits, IEEE "
        "16/32/64, MIL-STD-1750A, enumerated over int / float / string encodings, boolean, fixed strings in all "
        "character sets, fixed binaries, calibrated numerics, time types) and packets synthesised from it with field "
        "values at the extremes of each encoding (min / max, +-0, subnormals, NaN, strings and byte strings with "
        "leading and trailing NULs and spaces, non-ASCII text), written to 1..3 files with interleaved APIDs; "
        "create_dataset is called with use_raw_values False and True and with the file list given as list, tuple, "
        "one-shot generator, Path objects or a single path. Plus polymorphic streams (same APID, different field sets) "
        "for the rejection clause, and the same field set in a different order (which is NOT polymorphic). Oracle (metamorphic against the library's own parse, as the statement "
        "compares cells with 'the corresponding parsed value'): expected[apid][name] = [v or v.raw_value for the "
        "packets of that APID, files in the order given]; dataset keys == APIDs present, variables == field names, "
        "row count, each cell equal to the expected element (int(cell) == int(v); floats bit-equal or both NaN after "
        "widening; str(cell) == v; bytes(cell) == v; booleans as integers). Polymorphic -> ValueError. Non-trivial: "
        ">= 2 APIDs interleaved or >= 2 files, and >= 1 non-integer parameter.")
ASSUMPTIONS = ["decoding itself is judged by C01, not here",
               "integers wider than 64 bits are outside numpy's integer dtypes and are not generated for this check"]
EXHAUSTIVE = {"quick": False, "thorough": False}


def expected_rows(defn, files, raw, **kw):
    rows = {}
    order = []
    for f in files:
        with open(f, "rb") as fh:
            with warnings.catch_warnings():
                warnings.simplefilter("ignore")
                pkts = list(defn.packet_generator(fh, **kw))
        for p in pkts:
            apid = p.raw_data.apid
            if apid not in rows:
                rows[apid] = []
                order.append(apid)
            rows[apid].append([(k, (v.raw_value if raw else v)) for k, v in p.items()])
    return rows, order


def cell_problem(cell, v):
    """None or (kind, text)"""
    import numpy as np
    if isinstance(cell, np.generic):
        cell = cell.item()
    if isinstance(v, bool) or type(v).__name__ == "BoolParameter":
        try:
            ok = int(cell) == int(v)
        except Exception:
            ok = False
        return None if ok else ("cell-bool", f"cell {cell!r} for boolean {v!r}")
    if isinstance(v, int):
        try:
            # exact comparison (Python compares int and float exactly): a float cell is fine iff it holds the integer
            ok = not isinstance(cell, (str, bytes)) and float(cell) == float(cell) and cell == int(v)
        except Exception:
            ok = False
        return None if ok else ("cell-int", f"cell {cell!r} ({type(cell).__name__}) for integer {int(v)!r}")
    if isinstance(v, float):
        fv = float(v)
        if not isinstance(cell, (int, float)) or isinstance(cell, bool):
            return "cell-float", f"cell {cell!r} ({type(cell).__name__}) for float {fv!r}"
        fc = float(cell)
        if fv != fv:
            return None if fc != fc else ("cell-float", f"cell {fc!r} for NaN")
        ok = fc == fv and math.copysign(1, fc) == math.copysign(1, fv)
        return None if ok else ("cell-float", f"cell {fc!r} for float {fv!r}")
    if isinstance(v, str):
        ok = isinstance(cell, str) and cell == str(v)
        return None if ok else ("cell-str", f"cell {cell!r} ({type(cell).__name__}) for text {str(v)!r}")
    if isinstance(v, bytes):
        ok = isinstance(cell, bytes) and cell == bytes(v)
        return None if ok else ("cell-bytes", f"cell {cell!r} ({type(cell).__name__}) for bytes {bytes(v)!r}")
    return "cell-?", f"unexpected value {v!r}"


NAME_POOL = ["b.bin", "a.bin", "10.pkts", "9.pkts", "Z.bin", "z.bin", "sub/a.bin", "_x", "packets_2.bin", "packets_10.bin",
             "B/1.bin", "A/2.bin"]


def write_files(packets, assignment, nfiles, workdir, names=None, given=None, skip=0):
    """file i holds the packets assigned to it; the list handed to create_dataset is files[g] for g in `given`
    (any order, repeats allowed) – the order given need not be the order of the names"""
    files = []
    for i in range(nfiles):
        path = os.path.join(workdir, names[i] if names else f"packets_{i}.bin")
        os.makedirs(os.path.dirname(path), exist_ok=True)
        with open(path, "wb") as f:
            for p, a in zip(packets, assignment):
                if a % nfiles == i:
                    f.write(bytes([0xA5, 0x08, 0x00] * skip)[:skip] + p)   # `skip` record-header bytes before each packet
        files.append(path)
    return [files[g] for g in given] if given else files


def check_case(ctx, case):
    from space_packet_parser import xarr
    doc = case["doc"]
    packets = [bytes.fromhex(p) for p in case["packets"]]
    ctx.count()
    workdir = tempfile.mkdtemp(prefix="vf_c18_")
    try:
        skip = case.get("skip", 0)
        gkw = {"skip_header_bytes": skip} if skip else {}
        files = write_files(packets, case["files"], case["nfiles"], workdir, case.get("names"), case.get("given"), skip)
        if skip:
            ctx.cls("generator keyword passed through (skip_header_bytes)")
        if files != sorted(files):
            ctx.cls("files given in an order other than by name")
        if len(set(files)) < len(files):
            ctx.cls("a file given more than once")
        try:
            defn = c01.get_definition(case)
        except Exception as e:
            return ctx.fail("load-raised", f"definition could not be obtained: {e!r}", case, bucket="load-raised:" + exc_sig(e))
        modes = [False, True] if case.get("only_mode") is None else [case["only_mode"]]
        for raw in modes:
            try:
                rows, order = expected_rows(defn, files, raw, **gkw)
            except Exception as e:
                ctx.cls("library parse raised (skipped, C01's subject)")
                return None
            napid = len(rows)
            fieldsets = {a: {frozenset(k for k, _ in r) for r in rs} for a, rs in rows.items()}   # sets, not orders
            poly = any(len(fs) > 1 for fs in fieldsets.values())
            kinds = {type(v).__mro__[-2].__name__ for rs in rows.values() for r in rs for _, v in r}
            nonint = bool(kinds - {"int"})
            interleaved = napid >= 2 and any(packets[i][:2] != packets[i + 1][:2] for i in range(len(packets) - 1))
            if (interleaved or case["nfiles"] >= 2) and nonint and not poly:
                ctx.nontrivial((case["packets"], case["files"], case["nfiles"], raw, doc["types"][7:]))
                ctx.cls("nontrivial")
            ctx.cls(f"mode {'raw' if raw else 'derived'}")
            ctx.cls("polymorphic stream" if poly else f"{min(napid, 4)} APID(s)")
            for k in kinds:
                ctx.cls(f"cells of kind {k}")
            ctx.sample("raw" if raw else "derived", {"apids": order, "rows": {a: len(r) for a, r in rows.items()},
                                                      "nfiles": case["nfiles"], "kinds": sorted(kinds)})
            what = f"[use_raw_values={raw}, {case['nfiles']} file(s)]"
            try:
                with warnings.catch_warnings():
                    warnings.simplefilter("ignore")
                    how = case.get("files_as", "list")
                    arg = {"list": list(files), "tuple": tuple(files), "generator": (f for f in files),
                           "paths": [__import__("pathlib").Path(f) for f in files],
                           "single": files[0] if len(files) == 1 else list(files)}[how]
                    darg = defn
                    if case.get("defn_as") in ("path", "str") and case["route"] == "xml" and doc["root"] == "CCSDSPacket" \
                            and (case.get("opts") or {}).get("ns") == "prefix" and case["opts"].get("prefix") == "xtce":
                        # the definition handed over as a file name (loaded with from_xtce's defaults)
                        xp = os.path.join(workdir, "definition.xml")
                        with open(xp, "wb") as xf:
                            xf.write(xdoc.render(doc, case["opts"]))
                        darg = xp if case["defn_as"] == "str" else __import__("pathlib").Path(xp)
                        ctx.cls("definition given as a file name")
                    ds = xarr.create_dataset(arg, darg, use_raw_values=raw, **gkw)
            except ValueError as e:
                if poly:
                    ctx.cls("polymorphic -> ValueError")
                    continue
                return ctx.fail("create-raised", f"{what} create_dataset raised {e!r} [{exc_sig(e)}]",
                                dict(case, only_mode=raw), bucket="create-raised:" + exc_sig(e))
            except Exception as e:
                return ctx.fail("create-raised", f"{what} create_dataset raised {e!r} [{exc_sig(e)}]",
                                dict(case, only_mode=raw), bucket="create-raised:" + exc_sig(e))
            if poly:
                return ctx.fail("polymorphic-accepted", f"{what} packets of one APID differ in field set but a dataset "
                                                        f"was returned", dict(case, only_mode=raw))
            if sorted(ds.keys()) != sorted(rows.keys()):
                return ctx.fail("apids", f"{what} dataset keys {sorted(ds.keys())}, APIDs parsed {sorted(rows.keys())}",
                                dict(case, only_mode=raw))
            for apid, rs in rows.items():
                d = ds[apid]
                names = [k for k, _ in rs[0]]
                if sorted(d.data_vars) != sorted(names):
                    return ctx.fail("variables", f"{what} APID {apid}: variables {sorted(d.data_vars)}, parameters {names}",
                                    dict(case, only_mode=raw))
                for j, name in enumerate(names):
                    col = d[name].values
                    if len(col) != len(rs):
                        return ctx.fail("rows", f"{what} APID {apid} {name}: {len(col)} rows for {len(rs)} packets",
                                        dict(case, only_mode=raw))
                    for i, r in enumerate(rs):
                        v = dict(r)[name]   # by name: packets of one APID may order the same fields differently
                        p = cell_problem(col[i], v)
                        if p:
                            return ctx.fail(p[0], f"{what} APID {apid} row {i} variable {name} (dtype {col.dtype}): {p[1]}",
                                            dict(case, only_mode=raw, cell={"kind": p[0], "got": repr(col[i].item() if hasattr(col[i], 'item') else col[i]),
                                                                            "want": repr(v), "dtype": str(col.dtype),
                                                                            "column_kinds": sorted({type(dict(x)[name]).__mro__[-2].__name__ for x in rs}),
                                                                            "inferred_dtype": _inferred([dict(x)[name] for x in rs])}),
                                            bucket=p[0] + (":raw" if raw else ":derived"))
        return None
    finally:
        shutil.rmtree(workdir, ignore_errors=True)


def known_trailing_nul(case, violation):
    """D14b: NumPy's fixed-width S / U dtypes drop trailing NUL characters"""
    if violation["kind"] not in ("cell-str", "cell-bytes"):
        return False
    import ast
    c = violation["case"].get("cell")
    if not c:
        return False
    got, want = ast.literal_eval(c["got"]), ast.literal_eval(c["want"])
    if type(got) is not type(want):
        return False
    nul = "\x00" if isinstance(want, str) else b"\x00"
    return want != got and want.endswith(nul) and want.rstrip(nul) == got


def _inferred(values):
    """dtype NumPy infers for the plain built-in values of a column"""
    import numpy as np
    plain = []
    for v in values:
        for base in (bool, int, float, str, bytes):
            if isinstance(v, base):
                plain.append(base(v) if type(v).__name__ != "BoolParameter" else int(v))
                break
    try:
        return str(np.asarray(plain).dtype)
    except Exception:  # noqa: BLE001
        return "?"


def known_big_int_in_float_column(case, violation):
    """D14f: the dtype of variables with calibrators is left to NumPy's inference; a column that mixes calibrated floats
    with uncalibrated ints, or ints beyond the int64 range with smaller ones, is inferred as float64 and integers
    beyond 2**53 are rounded to the nearest double"""
    if violation["kind"] != "cell-int":
        return False
    import ast
    c = violation["case"].get("cell")
    if not c or c.get("dtype") != "float64" or c.get("inferred_dtype") != "float64" or "int" not in c.get("column_kinds", []):
        return False   # only when NumPy's own inference over the plain parsed values of the column gives float64
    got, want = ast.literal_eval(c["got"]), ast.literal_eval(c["want"])
    return isinstance(got, float) and isinstance(want, int) and abs(want) > 2 ** 53 and got == float(want)


@st.composite
def gen_poly_doc(draw):
    """same APID, two layouts distinguished by the TYPE header bit: a polymorphic stream"""
    names = list(pk.HEADER_NAMES)

    def it(n, b):
        return {"kind": "int", "name": n + "_T", "unit": None,
                "enc": {"k": "int", "bits": b, "sign": "unsigned", "order": xgen.BE, "dcal": None, "ccals": None}}
    types = [it(n, w) for n, w in zip(pk.HEADER_NAMES, pk.HEADER_WIDTHS)] + [it("A", 8), it("B", 16), it("C", 8)]
    params = [{"name": n, "type": n + "_T", "short": None, "long": None} for n in names + ["A", "B", "C"]]
    apid = draw(st.integers(0, 2047))
    second = draw(st.sampled_from([["A", "C"], ["B"], ["C", "A"], ["A", "B"], ["B", "A"], ["B", "A"], ["A"], ["A", "B", "C"]]))
    conts = [{"name": "CCSDSPacket", "entries": [["p", n] for n in names], "base": None, "match": None, "abstract": True,
              "short": None, "long": None}]
    for i, fields in enumerate((["A", "B"], second)):
        conts.append({"name": f"L{i}", "entries": [["p", n] for n in fields], "base": "CCSDSPacket",
                      "match": {"form": "list", "cmps": [{"ref": "PKT_APID", "op": "==", "value": str(apid), "cal": True},
                                                         {"ref": "TYPE", "op": "==", "value": str(i), "cal": True}]},
                      "abstract": False, "short": None, "long": None})
    return {"name": None, "date": "2020-01-01", "root": "CCSDSPacket", "types": types, "params": params,
            "containers": conts}


@st.composite
def gen_case(draw, poly=False):
    doc = draw(gen_poly_doc()) if poly else draw(xgen.gen_doc("flat"))
    model = xref.Model(doc)
    n = draw(st.integers(1, 10))
    packets = [draw(xgen.gen_packet(doc, mutate=False, model=model)).hex() for _ in range(n)]
    nfiles = draw(st.integers(1, 3))
    files = [draw(st.integers(0, nfiles - 1)) for _ in range(n)]
    names = draw(st.lists(st.sampled_from(NAME_POOL), min_size=nfiles, max_size=nfiles, unique=True))
    given = draw(st.one_of(st.just(list(range(nfiles))), st.permutations(list(range(nfiles))),
                           st.lists(st.integers(0, nfiles - 1), min_size=1, max_size=nfiles + 1)))
    return {"doc": doc, "packets": packets, "nfiles": nfiles, "files": files, "names": names, "given": list(given),
            "skip": draw(st.sampled_from([0, 0, 0, 3, 16])), "defn_as": draw(st.sampled_from(["object", "path", "str"])),
            "files_as": draw(st.sampled_from(["list", "list", "tuple", "generator", "paths", "single"])),
            "route": draw(st.sampled_from(["xml", "xml", "built"])), "opts": draw(c01.gen_opts())}


def part_generated(ctx, examples, poly=False):
    hyp_run(ctx, gen_case(poly), check_case, examples, shrink_budget=60 if ctx.tier == "quick" else 600, rounds=4)


PARTS = {"generated": part_generated}
REPLAY = {"generated": check_case}
KNOWN = {"trailing_nul_stripped": known_trailing_nul, "big_int_rounded_in_float_column": known_big_int_in_float_column}
FLOORS = {"nontrivial": ("", 0.1), "polymorphic -> ValueError": ("", 0.002),
          "files given in an order other than by name": ("", 0.1)}


def plan(tier, seed):
    q = tier == "quick"
    tasks = [("generated", {"examples": 150 if q else 4000}) for _ in range(14)]
    tasks += [("generated", {"examples": 100 if q else 1000, "poly": True}) for _ in range(2)]
    return tasks
