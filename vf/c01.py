"""C01 – end-to-end decoding conforms to the XTCE document for every stream."""
from hypothesis import strategies as st

from vf import xcheck, xdoc, xgen, xref
from vf.runner import exc_sig, hyp_run

PROPERTY = "C01"
LEVEL = "exploration"
RULE = ("Hypothesis generates XTCE documents in the supported subset (every parameter type and encoding, default and "
        "context calibrators, all three criteria forms, inheritance depth <= 4 with nested and reused containers, "
        "fixed / looked-up / referenced lengths with raw or calibrated references and linear adjustment; vf/xgen.py) "
        "and streams of 1..12 packets synthesised FROM the document by running the reference decoder over a lazily "
        "extended bit stream whose field values are biased towards the literals of the document's criteria, "
        "enumeration keys, spline knots and length-source values, then mutated (exact / truncated / extended). The "
        "document is loaded from XML written by the harness's own renderer (three namespace conventions, defaults "
        "written or omitted) or assembled from objects. Oracle: list(load(D).packet_generator(stream)), with and "
        "without yield_unrecognized_packet_errors, compared item by item with the independent reference semantics "
        "(vf/xref.py): same packets yielded and skipped, same parameter names in order, value / raw_value / built-in "
        "type equal (floats bit-for-bit, general calibrators within 1e-9 relative), unrecognised packets skipped or "
        "reported with equal partial data, decode failures the property names must raise. Non-trivial: the document "
        "uses a dynamic length, calibrator, nesting, depth >= 2 or a criterion other than one equality, and the stream "
        "holds >= 1 fully parsed packet with >= 1 user-data field; distinct by hash of (document, stream).")
ASSUMPTIONS = ["the supported subset and its preconditions are those of DESIGN.md 2.3 (references only to parameters "
               "decoded earlier on every path; literals spelled in the type of the compared value; exact-friendly "
               "calibrators where a value feeds a criterion or a length)",
               "sub-domains the properties leave open (missing terminator, size tag not a multiple of 8 or beyond the "
               "buffer, undecodable text, fields beyond the end of the packet) are classified and not asserted"]
EXHAUSTIVE = {"quick": False, "thorough": False}


def doc_features(doc):
    f = set()
    for t in doc["types"]:
        e = t["enc"]
        if e["k"] in ("int", "float"):
            if e.get("dcal") or t.get("time"):
                f.add("calibrator")
            if e.get("ccals"):
                f.add("context-calibrator")
        elif e["len"]["t"] != "fixed":
            f.add("dynamic-length:" + e["len"]["t"])
    depth = {}
    by = {c["name"]: c for c in doc["containers"]}

    def dep(n):
        if n not in depth:
            depth[n] = 0 if not by[n].get("base") else dep(by[n]["base"]) + 1
        return depth[n]
    for c in doc["containers"]:
        if dep(c["name"]) >= 2:
            f.add("depth>=2")
        if any(k == "c" for k, _ in c["entries"]):
            f.add("nested")
        m = c.get("match")
        if m and not (m["form"] == "cmp" and m["cmps"][0]["op"] in ("==", "eq")):
            f.add("criteria-beyond-one-equality")
    return f


def get_definition(case):
    if case["route"] == "built":
        return xdoc.build(case["doc"])
    return xdoc.load(case["doc"], case.get("opts"))


def check_case(ctx, case):
    doc = case["doc"]
    packets = [bytes.fromhex(p) for p in case["packets"]]
    ctx.count()
    model = xref.Model(doc)
    expects = xcheck.expectations(model, packets)
    feats = doc_features(doc)
    for f in feats:
        ctx.cls("doc: " + f)
    ctx.cls("route " + case["route"])
    for ex in expects:
        ctx.cls("packet " + ex.label())
        if ex.res.unspecified:
            ctx.cls("unspecified: " + ex.res.unspecified.split(":")[0])
    if any(ex.kind == "precondition" for ex in expects):
        ctx.cls("generator precondition broken")
    full = any(ex.kind == "yield" and len(ex.items) > 7 for ex in expects)
    if feats and full:
        ctx.nontrivial(case)
        ctx.cls("nontrivial")
    ctx.sample("case", {"doc_containers": [c["name"] for c in doc["containers"]], "types": len(doc["types"]),
                        "packets": case["packets"][:3], "route": case["route"], "opts": case.get("opts")})
    try:
        defn = get_definition(case)
    except Exception as e:
        return ctx.fail("load-raised", f"definition could not be obtained via {case['route']}: {e!r} [{exc_sig(e)}]",
                        case, bucket="load-raised:" + exc_sig(e))
    stream = b"".join(packets)
    for flag in (False, True):
        out, exc, msgs = xcheck.run(defn, stream, len(packets), yield_unrecognized_packet_errors=flag)
        r = xcheck.compare_run(expects, out, exc, flag, packets)
        if r:
            return ctx.fail(r[0], f"[yield_unrecognized_packet_errors={flag}, route {case['route']}] {r[1]}", case,
                            bucket=r[0].split(" ")[0])
    return None


@st.composite
def gen_opts(draw):
    ns = draw(st.sampled_from(["prefix", "prefix", "default", "none"]))
    return {"ns": ns, "prefix": draw(st.sampled_from(["xtce", "xtce", "x", "foo-1"])),
            "omit_defaults": draw(st.booleans()), "single_list": draw(st.booleans()),
            "reverse_points": draw(st.booleans()), "empty_unitset": draw(st.booleans()),
            "int_values": draw(st.booleans()), "false_as_0": draw(st.booleans()),
            "type_signed": draw(st.sampled_from([None, None, "match", "true", "false", "opposite"])),
            "container_order": draw(st.sampled_from([None, None, "reversed", "rotated"])),
            "legacy_float_names": draw(st.booleans()),
            "xsi": draw(st.sampled_from([False, False, True]))}    # an unrelated xmlns:xsi declaration on the root


@st.composite
def gen_case(draw, profile="full", max_packets=8):
    doc = draw(xgen.gen_doc(profile))
    model = xref.Model(doc)
    n = draw(st.integers(1, max_packets))
    packets = [draw(xgen.gen_packet(doc, model=model)).hex() for _ in range(n)]
    route = draw(st.sampled_from(["xml", "xml", "xml", "built"]))
    return {"doc": doc, "packets": packets, "route": route, "opts": draw(gen_opts())}


def part_generated(ctx, examples, profile="full", max_packets=8):
    hyp_run(ctx, gen_case(profile, max_packets), check_case, examples, shrink_budget=60 if ctx.tier == "quick" else 600,
            rounds=2)


PARTS = {"generated": part_generated}
REPLAY = {"generated": check_case}
KNOWN = {}
FLOORS = {"packet clean": ("", 0.05), "nontrivial": ("", 0.1)}


def plan(tier, seed):
    q = tier == "quick"
    tasks = []
    for i in range(16 if q else 32):
        prof = ["full", "full", "full", "blobs", "trees", "lengths", "full", "flat"][i % 8]
        tasks.append(("generated", {"examples": 150 if q else 1500, "profile": prof, "max_packets": 6 if q else 12}))
    return tasks
