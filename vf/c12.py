"""C12 – segmented packets are reassembled per APID exactly once and only when complete."""
from hypothesis import strategies as st

from vf import pk
from vf.runner import exc_sig, hyp_run

PROPERTY = "C12"
LEVEL = "exploration"
RULE = ("Histories over {CONTINUATION, FIRST, LAST, UNSEGMENTED} x APID x {in-sequence, gap}. Exhaustive: every "
        "history of length 1..4 (thorough: ..5, plus length 6 for one secondary-header length) over 2 APIDs (one of "
        "them starting at count 16382 so that in-sequence steps wrap 16383->0), for secondary-header lengths 0 and 2 "
        "and, for one APID, every history of length <= 4 (thorough <= 6) over 4 flags x {in-sequence, skip one, repeated "
        "count, skip two} (compensating irregularities inside one group) "
        "with data lengths 1,2,3,.. by position (shorter than, equal to and longer than the secondary header). "
        "Generated (Hypothesis): histories up to length 40 over <= 4 APIDs, secondary-header lengths 0..4, data lengths "
        "1..8, arbitrary gaps, repeated counts and start counts near the wrap; in half of them (and in the one-APID "
        "enumeration) the packet type, secondary-header flag and version bits vary from packet to packet (groups are "
        "per APID only). Every raw packet carries a unique marker "
        "byte. Driven through packet_generator(combine_segmented_packets=True, secondary_header_bytes=k) of a header-"
        "only concrete definition, so every (re)assembled packet is yielded. Oracle: reference state machine written "
        "from the statement (per APID an open group or none; a LAST always closes the group) giving the exact list of "
        "raw_data byte strings; independent invariant: every marker occurs in at most one output; a segment warning "
        "is emitted iff the model drops a stray or gapped packet. Non-trivial: a completed or rejected group followed "
        "by further segments of the same APID, or >= 2 APIDs interleaved inside a group, or a wrap-around inside a "
        "group, or a superseded group.")
ASSUMPTIONS = ["an UNSEGMENTED packet arriving while a group of the same APID is open is ambiguous in the statement: "
               "both readings (group unaffected / group discarded) are computed and either is accepted",
               "length-mismatch warnings from the header-only definition are expected and ignored"]
EXHAUSTIVE = {"quick": False, "thorough": False}

CONT, FIRST, LAST, UNSEG = 0, 1, 2, 3
_defn = None


def defn():
    global _defn
    if _defn is None:
        _defn = pk.header_only_definition()
    return _defn


def build_packets(case):
    """list of (apid, flag, count, bytes) per step"""
    counts = {}
    out = []
    for i, st_ in enumerate(case["steps"]):
        a = st_["a"]
        if a in counts:
            c = (counts[a] + 1 + st_["gap"]) % 16384
        else:
            c = case["start"][a] % 16384
        counts[a] = c
        data = bytes([i + 1]) * st_["n"]
        out.append((case["apids"][a], st_["f"], c, pk.mkpacket(case["apids"][a], data, seqflags=st_["f"], seqcount=c,
                                                               shflag=st_.get("h", 1 if case["s"] else 0),
                                                               ptype=st_.get("t", 0), version=st_.get("v", 0))))
    return out


def model(pkts, s, unseg_breaks):
    """reference state machine. returns (outputs: list[list[index]], dropped_with_warning: bool, tags: set)"""
    open_ = {}
    outs = []
    warn = False
    tags = set()
    closed = set()   # APIDs that had a group completed or rejected
    for i, (apid, f, c, _) in enumerate(pkts):
        for other in open_:
            if other != apid:
                tags.add("interleaved")
        if f == UNSEG:
            outs.append([i])
            if unseg_breaks:
                open_.pop(apid, None)
        elif f == FIRST:
            if apid in open_:
                tags.add("superseded")
            open_[apid] = [i]
        elif apid not in open_:
            warn = True
            if apid in closed:
                tags.add("segments-after-closed-group")
        elif f == CONT:
            open_[apid].append(i)
        else:
            grp = open_.pop(apid) + [i]
            closed.add(apid)
            cs = [pkts[j][2] for j in grp]
            if all((cs[k + 1] - cs[k]) % 16384 == 1 for k in range(len(cs) - 1)):
                outs.append(grp)
                if any(cs[k + 1] < cs[k] for k in range(len(cs) - 1)):
                    tags.add("wrap")
                tags.add("group")
            else:
                warn = True
                tags.add("gapped")
    return outs, warn, tags


def assemble(pkts, grp, s):
    out = pkts[grp[0]][3]
    for j in grp[1:]:
        out += pkts[j][3][6 + s:]
    return out


def run_library(pkts, s):
    import warnings
    stream = b"".join(p[3] for p in pkts)
    with warnings.catch_warnings(record=True) as w:
        warnings.simplefilter("always")
        gen = defn().packet_generator(stream, combine_segmented_packets=True, secondary_header_bytes=s)
        items, ended = pk.bounded(gen, len(stream))
    msgs = [str(x.message) for x in w]
    return items, ended, msgs


def check_history(ctx, case, record=True):
    pkts = build_packets(case)
    s = case["s"]
    if record:
        ctx.count()
    try:
        items, ended, msgs = run_library(pkts, s)
    except Exception as e:
        return ctx.fail("raised", f"packet_generator raised {e!r} on history {describe(pkts)}", case,
                        bucket="raised:" + exc_sig(e))
    if not ended:
        return ctx.fail("no-termination", f"more items than packets for {describe(pkts)}", case)
    got = [bytes(p.raw_data) for p in items]
    seg_warn = any("Continuation packet" in m for m in msgs)
    verdicts = []
    tags = set()
    for unseg_breaks in (False, True):
        outs, warn, tg = model(pkts, s, unseg_breaks)
        tags |= tg
        exp = [assemble(pkts, g, s) for g in outs]
        if got != exp:
            verdicts.append(("outputs", f"history {describe(pkts)} s={s}: yielded {[g.hex() for g in got]}, expected "
                                        f"{[e.hex() for e in exp]} (groups {outs})"))
        elif warn and not seg_warn:
            verdicts.append(("no-warning", f"history {describe(pkts)}: packets dropped without a segment warning; "
                                           f"warnings: {msgs}"))
        elif not warn and seg_warn:
            verdicts.append(("spurious-warning", f"history {describe(pkts)}: segment warning although nothing is "
                                                 f"dropped: {msgs}"))
        else:
            verdicts.append(None)
    if record:
        for t in sorted(tags):
            ctx.cls("history with " + t)
        if tags & {"segments-after-closed-group", "interleaved", "wrap", "superseded"}:
            ctx.cls("nontrivial")
            if ctx.part != "exhaustive":
                ctx.nontrivial(case)
            else:
                ctx.nontrivial_distinct()
    if None in verdicts:
        # independent invariant: no raw packet contributes to two outputs
        for i in range(len(pkts)):
            hits = sum(1 for g in got if bytes([i + 1]) in g[6:])
            if hits > 1:
                return ctx.fail("marker-twice", f"packet {i} of {describe(pkts)} contributes to {hits} outputs", case)
        return None
    kind, detail = verdicts[0]
    return ctx.fail(kind, detail, case, bucket=kind)


def check_interleaved(ctx, case):
    """2..3 histories decoded by generators of ONE definition object that are advanced in a drawn interleaving: every
    generator must yield what the reference gives for its own history (groups are per stream, not per definition)"""
    import warnings
    ctx.count()
    hs = case["histories"]
    pkts = [build_packets(h) for h in hs]
    d = defn()
    gens, got, done = [], [[] for _ in hs], [False] * len(hs)
    with warnings.catch_warnings():
        warnings.simplefilter("ignore")
        for h, pp in zip(hs, pkts):
            gens.append(d.packet_generator(b"".join(p[3] for p in pp), combine_segmented_packets=True,
                                           secondary_header_bytes=h["s"]))
        budget = sum(len(pp) for pp in pkts) + len(hs) + 2
        order = list(case["schedule"]) + [i for i in range(len(hs))] * budget
        try:
            for gi in order:
                if all(done):
                    break
                if done[gi]:
                    continue
                try:
                    got[gi].append(bytes(next(gens[gi]).raw_data))
                except StopIteration:
                    done[gi] = True
                if sum(len(g) for g in got) > budget:
                    return ctx.fail("no-termination", "interleaved generators yield more items than there are packets", case)
        except Exception as e:
            return ctx.fail("raised", f"interleaved generators raised {e!r}", case, bucket="interleaved-raised:" + exc_sig(e))
    open_at_switch = False
    for gi, (h, pp) in enumerate(zip(hs, pkts)):
        exps = [[assemble(pp, g, h["s"]) for g in model(pp, h["s"], ub)[0]] for ub in (False, True)]
        if got[gi] not in exps:
            return ctx.fail("interleaved-outputs", f"generator {gi} of {len(hs)} on one definition, schedule "
                                                   f"{case['schedule'][:30]}: history {describe(pp)} s={h['s']} yielded "
                                                   f"{[g.hex() for g in got[gi]]}, expected {[e.hex() for e in exps[0]]}",
                            case, bucket="interleaved-outputs")
        if any(len(g) > 1 for g in model(pp, h["s"], False)[0]):
            open_at_switch = True
    ctx.cls("interleaved generators on one definition")
    if open_at_switch and len(set(case["schedule"])) > 1:
        ctx.cls("interleaved: a combined group in a stream that is advanced alternately with another")
        ctx.nontrivial(case)
        ctx.cls("nontrivial")
    return None


@st.composite
def gen_interleaved(draw):
    n = draw(st.integers(2, 3))
    hs = []
    pool = draw(st.lists(st.integers(0, 2047), min_size=4, max_size=4, unique=True))
    for _ in range(n):
        h = draw(gen_case())
        h["apids"] = pool[:len(h["apids"])]    # the streams share their APIDs: that is what a shared table would confuse
        h["steps"] = h["steps"][:12]
        if draw(st.booleans()):
            k = draw(st.integers(0, 3))
            h["steps"] = ([{"f": FIRST, "a": 0, "gap": 0, "n": 2}] + [{"f": CONT, "a": 0, "gap": 0, "n": 1}] * k +
                          [{"f": LAST, "a": 0, "gap": 0, "n": 3}]) * draw(st.integers(1, 2)) + h["steps"][:4]
        hs.append(h)
    total = sum(len(h["steps"]) for h in hs)
    schedule = draw(st.lists(st.integers(0, n - 1), min_size=0, max_size=total + 2))
    return {"histories": hs, "schedule": schedule}


def part_interleaved(ctx, examples):
    hyp_run(ctx, gen_interleaved(), check_interleaved, examples)


def describe(pkts):
    names = {0: "CONT", 1: "FIRST", 2: "LAST", 3: "UNSEG"}
    return " ".join(f"{names[f]}(apid={a},n={c})" for a, f, c, _ in pkts)


def history_from_index(idx, length, s):
    steps = []
    for i in range(length):
        d = idx % 16
        idx //= 16
        steps.append({"f": d & 3, "a": (d >> 2) & 1, "gap": (d >> 3) & 1, "n": i + 1})
    return {"steps": steps, "s": s, "start": [16382, 5], "apids": [100, 2047]}


def history_one_apid(idx, length, s):
    """one APID, four sequence relations incl. a repeated count: {in-sequence, skip one, repeat, skip two}"""
    steps = []
    for i in range(length):
        d = idx % 16
        idx //= 16
        steps.append({"f": d & 3, "a": 0, "gap": [0, 1, -1, 2][(d >> 2) & 3], "n": i + 1, "h": 1 if i == 0 else 0,
                      "t": i & 1})
    return {"steps": steps, "s": s, "start": [16381], "apids": [77]}


def part_exhaustive(ctx, length, s, lo, hi, one_apid=False):
    for idx in range(lo, hi):
        case = history_one_apid(idx, length, s) if one_apid else history_from_index(idx, length, s)
        check_history(ctx, case)
    ctx.domain(f"histories of length {length} over 16 step kinds ({'1 APID x 4 sequence relations' if one_apid else '2 APIDs x 2 sequence relations'}), secondary header {s}", hi - lo)
    ctx.sample("exhaustive", history_one_apid(lo, length, s) if one_apid else history_from_index(lo, length, s))


@st.composite
def gen_case(draw):
    napid = draw(st.integers(1, 4))
    apids = draw(st.lists(st.integers(0, 2047), min_size=napid, max_size=napid, unique=True))
    start = [draw(st.one_of(st.integers(0, 16383), st.integers(16370, 16383))) for _ in range(napid)]
    s = draw(st.integers(0, 4))
    n = draw(st.integers(1, 40))
    vary_header = draw(st.booleans())
    steps = []
    for _ in range(n):
        f = draw(st.sampled_from([CONT, CONT, FIRST, LAST, LAST, UNSEG]))
        a = draw(st.integers(0, napid - 1))
        gap = draw(st.sampled_from([0, 0, 0, 0, 0, 0, 1, 2, 16382, 16383, -1]))
        step = {"f": f, "a": a, "gap": gap, "n": draw(st.integers(1, 8))}
        if vary_header:
            # the other header bits are free: groups are per APID, whatever type / secondary-header flag / version say
            step.update(h=draw(st.integers(0, 1)), t=draw(st.integers(0, 1)), v=draw(st.sampled_from([0, 0, 1, 7])))
        steps.append(step)
    return {"steps": steps, "s": s, "start": start, "apids": apids}


def check_generated(ctx, case):
    ctx.cls(f"generated s={case['s']}")
    ctx.sample("generated", case)
    check_history(ctx, case)


def part_generated(ctx, examples):
    hyp_run(ctx, gen_case(), check_generated, examples)


PARTS = {"exhaustive": part_exhaustive, "generated": part_generated, "interleaved": part_interleaved}
REPLAY = {"exhaustive": check_generated, "generated": check_generated, "interleaved": check_interleaved}
KNOWN = {}
FLOORS = {"nontrivial": ("", 0.12)}


def plan(tier, seed):
    tasks = []

    def exh(length, s, shards, one_apid=False):
        total = 16 ** length
        step = (total + shards - 1) // shards
        for i in range(shards):
            tasks.append(("exhaustive", {"length": length, "s": s, "lo": i * step, "hi": min(total, (i + 1) * step),
                                         "one_apid": one_apid}))
    if tier == "quick":
        for s in (0, 2):
            for length in (1, 2, 3):
                exh(length, s, 1)
            exh(4, s, 6)
        exh(4, 1, 4, one_apid=True)
        for _ in range(8):
            tasks.append(("generated", {"examples": 400}))
        for _ in range(3):
            tasks.append(("interleaved", {"examples": 300}))
    else:
        for s in (0, 2):
            for length in (1, 2, 3, 4):
                exh(length, s, 1)
            exh(5, s, 16)
        exh(6, 1, 64)
        exh(5, 1, 16, one_apid=True)
        exh(6, 3, 64, one_apid=True)
        for _ in range(16):
            tasks.append(("generated", {"examples": 6000}))
        for _ in range(8):
            tasks.append(("interleaved", {"examples": 3000}))
    return tasks
