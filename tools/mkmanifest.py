#!/venv/bin/python
"""Regenerates /verif/MANIFEST.json from the table below (the table is the source of truth)."""
import json
import os

VERIF = os.path.dirname(os.path.dirname(os.path.abspath(__file__)))

# id -> (category, technique, level text, level note, design ref)
CHECKS = {
    "C03": ("exploration",
            "exhaustive enumeration of small buffers + Hypothesis-generated buffers against a bit-string reference",
            "Every (buffer, p, n) over all 1-byte buffers and (thorough) all 2-byte buffers is enumerated and both "
            "reads are compared with an independent bit-string reference; larger buffers, every p mod 8 / n mod 8 "
            "cell and widths up to 1e5 bits are sampled with Hypothesis. Complete for <= 2-byte buffers, "
            "sampled beyond.",
            "Trusts Python's int(s, 2) / int.to_bytes; reads are only required to be right for p+n inside the buffer.",
            "DESIGN.md 3/C03"),
    "C04": ("exploration",
            "exhaustive enumeration (all patterns of small integer widths, all binary16 values) + Hypothesis-generated "
            "fields against a bit-string/Fraction reference decoder",
            "Parameter.parse is compared with an independent reference for every bit pattern of integer widths <= 10 "
            "(thorough <= 16) at every offset and sign convention, every binary16 pattern at several (thorough: all) "
            "offsets and both byte orders, and Hypothesis-sampled wider integers, binary32/64 and MIL-STD-1750A values "
            "with boundary classes. Complete on the enumerated sub-domains, sampled beyond.",
            "Trusts vf/refbits.py (cross-checked against struct inside the check); little-endian only for whole-byte widths.",
            "DESIGN.md 3/C04"),
    "C06": ("exploration",
            "exhaustive truth tables of criteria trees up to a size bound + Hypothesis-generated trees against an own "
            "evaluator over plain Python values",
            "All 16 operator spellings x selectors x boundary operands (incl. falsy and int-vs-float) for Comparison and "
            "Condition, every ANDed/ORed tree shape up to 4 (thorough 5) leaves x all assignments, comparison lists and "
            "discrete-lookup lists with all match patterns, plus random nested trees; both constructor and from_xml routes. "
            "Complete up to the stated bounds, sampled beyond.",
            "Literals are spelled in the type of the compared value; raw byte buffers are not referenced by criteria.",
            "DESIGN.md 3/C06"),
    "C13": ("exploration",
            "exhaustive enumeration of every 16-bit header word, boundary product and rejection cases + Hypothesis, "
            "against an own string-formatted header layout (round trip through the framer)",
            "create_ccsds_packet, the seven accessors, header_values, data_length and re-framing are compared with an "
            "own layout for all 2^16 values of each header word, the 5^7 boundary product, (thorough) every data length "
            "1..65536, the converse direction on arbitrary headers, and all out-of-range rejections.",
            "Trusts the CCSDS layout as stated in the property; end-of-stream behaviour of the framer is C10's subject.",
            "DESIGN.md 3/C13"),
    "C20": ("exploration",
            "Hypothesis-generated values/raw values/packets + enumerated boundary grid; differential oracle against the "
            "plain built-in over ~60 operations per class, round trips through copy/deepcopy/pickle/pipe",
            "Each of the five value classes is compared with its plain built-in over a fixed list of ~60 operations "
            "(comparison, hashing, ordering, formatting, arithmetic, sequence protocol) for boundary and random values "
            "with every kind of raw value (incl. all falsy ones), and values, decoded fields and whole packets are put "
            "through copy, deepcopy, pickle protocols 0-5 and a multiprocessing pipe. Sampled, with the boundary grid "
            "enumerated.",
            "The boolean class is int-backed by design: its bit operations are compared by value (0 == False); "
            "serialisers special-casing the exact type bool are out of scope.",
            "DESIGN.md 3/C20"),
    "C12": ("exploration",
            "exhaustive enumeration of segment histories up to a length bound + Hypothesis-generated longer histories, "
            "against a reference state machine written from the statement (model-based oracle over the history)",
            "Every history of length <= 4 (thorough: <= 5, and 6 for one secondary-header length) over {CONT, FIRST, "
            "LAST, UNSEG} x 2 APIDs x {in-sequence, gap}, with a wrap-around start count and secondary-header lengths "
            "0 and 2, is run through packet_generator(combine_segmented_packets=True) and the yielded raw_data list is "
            "compared with a reference per-APID state machine; random histories up to length 40 over <= 4 APIDs extend "
            "this. Complete up to the length bound, sampled beyond.",
            "UNSEGMENTED inside an open group of the same APID is ambiguous in the statement; either reading is accepted. "
            "Observed through a header-only definition so that every assembled packet is yielded.",
            "DESIGN.md 3/C12"),
    "C10": ("fault_enumeration",
            "fault enumeration: every cut offset of Hypothesis-generated packet streams x source kinds x read sizes, "
            "plus arbitrary byte strings (Hypothesis and an atheris/libFuzzer campaign), against a validity predicate "
            "over the yielded items",
            "The producer dying at every byte offset of each generated stream is enumerated for bytes, BytesIO, real "
            "file, short-reading file object and a scripted socket closed by its peer, at rotating read sizes, through "
            "ccsds_generator and packet_generator; arbitrary byte strings extend the domain. The predicate checks "
            "termination (by a progress bound, not a timeout), completeness of every item, consecutive slicing and a "
            "remainder shorter than one packet. Complete over the cut points of each generated stream, sampled over "
            "streams.",
            "A socket.socket subclass overriding recv is an admissible socket; a loop that neither yields nor polls "
            "would only be seen by the runner's watchdog (reported inconclusive).",
            "DESIGN.md 3/C10"),
    "C02": ("exploration",
            "Hypothesis-generated packet sequences framed through six source kinds with harness-owned read sizes and "
            "recv fragmentations (scripted socket), compared byte-for-byte with the generated packets (round trip)",
            "Generated sequences (incl. maximum-size packets, prefix bytes that look like headers, cut points biased "
            "into headers and onto packet boundaries) and fixed streams beyond the 20 MB trim threshold are framed from "
            "bytes, BytesIO, a real file, a short-reading file object, a scripted socket and (thorough) a real "
            "socketpair at many read sizes; yielded items must equal the packets exactly and sized sources must stop "
            "after the last one. Sampled; the schedule is owned by the harness, so every fragmentation is reachable "
            "and replayable.",
            "A socket.socket subclass overriding recv is an admissible socket; real kernel sockets (thorough only) have "
            "uncontrolled timing but the oracle does not depend on it.",
            "DESIGN.md 3/C02"),
    "C19": ("exploration",
            "enumeration of every file size n = 0..14 and every packet index 0..n+1 with Hypothesis-generated header "
            "sets, CLI driven in-process (click CliRunner), printed rows compared with an own header decoding",
            "Every n from 0 to 14 packets (both sides of the elision threshold) with generated distinct headers is "
            "listed and every index 0..n+1 (and none) is parsed; files with truncated tails (every cut of a trailing "
            "packet) are included. Rows, markers, exit code and absence of exceptions are asserted; termination is "
            "decided by a counting cap on the framer. Complete over n and the indices, sampled over header values.",
            "Output is read with COLUMNS=220 so that rich neither wraps nor elides cells; negative indices are not claimed.",
            "DESIGN.md 3/C19"),
    "C08": ("exploration",
            "Hypothesis-generated calibrators, context lists, enumerations and raw values (every knot, end point and "
            "adjacent float queried) against an exact rational (Fraction) reference evaluation and a reference "
            "selection rule",
            "Polynomial and spline calibrators (orders 0 and 1, both extrapolate settings, constructor and XML routes) "
            "are queried at every knot, both end points, the adjacent floats, inside, just outside and far outside the "
            "range; numeric encodings with up to three overlapping context calibrators and an optional default are "
            "decoded on packets where none, one or several contexts match; enumerated and boolean types are decoded "
            "with calibrators attached, falsy keys and unlisted values. Sampled with a stated tolerance for general "
            "coefficients and exact equality where the result is a knot value.",
            "Finite queries and coefficients with all terms and slopes within 1e300; own-value references in context "
            "matches use the raw selector.",
            "DESIGN.md 3/C08"),
    "C01": ("exploration",
            "Hypothesis-generated XTCE documents + packets synthesised from each document (steering by construction), "
            "library decode compared item by item with an independent bit-string/Fraction reference decoder "
            "(differential oracle)",
            "Documents over the whole supported subset are loaded from XML written by the harness's own renderer or "
            "built from objects; streams of packets constructed to reach branches, dead ends, ambiguities, dynamic "
            "lengths and calibrator boundaries are decoded with and without unrecognised-packet reporting and every "
            "yielded item, value, raw value and type is compared with the reference semantics. Sampled.",
            "Trusts the reference semantics (vf/xref.py), which is small, exact and shares no code with the library; "
            "bounded by the supported subset of DESIGN.md 2.3; sub-domains the properties leave open are counted, "
            "not asserted.",
            "DESIGN.md 3/C01"),
    "C05": ("exploration",
            "Hypothesis-generated container trees + enumeration of all assignments (interval representatives) of the "
            "fields that restriction criteria read, against the reference container walk (model-based oracle)",
            "Generated inheritance trees with nested and reused containers, abstract flags, overlapping and uncovered "
            "criteria are decoded through parse_ccsds_packet and packet_generator (with and without unrecognised "
            "reporting) for every assignment of the discriminating fields (every value of narrow fields, one "
            "representative per literal interval of wide ones) and for synthesised packets; key order, values, header / "
            "user-data views, unrecognised outcomes and partial data are compared with the reference walk. Complete "
            "over the discriminating assignments of each generated tree (up to the stride of the quick tier), sampled "
            "over trees.",
            "Trusts vf/xref.py; two-parameter conditions are covered by sampling, not by the interval argument.",
            "DESIGN.md 3/C05"),
    "C14": ("exploration",
            "Hypothesis-generated length-dependent documents and packets shorter than / equal to / longer than what "
            "the definition consumes (incl. adversarial 'rewinding' synthesis for negative lengths), against the "
            "reference cleanliness predicate and the recorded length-mismatch warning",
            "Each generated packet is parsed alone with parse_bad_pkts on and off; clean packets must be yielded "
            "without the length-mismatch warning with the cursor at the reference sum of widths, decodable but "
            "mismatched packets must be warned about and withheld when bad packets are excluded, and packets with a "
            "field beyond the end or a negative computed length must be warned about, withheld or fail - never "
            "yielded as clean. Sampled, with floors on every class.",
            "Trusts vf/xref.py for the consumed-bit count; only the 'Number of bits parsed' warning is interpreted.",
            "DESIGN.md 3/C14"),
    "C07": ("exploration",
            "Hypothesis-drawn template documents (offset x character set x delimiter x length form) with content "
            "synthesised in the character set, decoded by the library and by the independent reference decoder; a "
            "sentinel field after the string/binary proves the cursor position",
            "All ten character sets, three delimiters, three length forms (raw / calibrated references, with and "
            "without linear adjustment, multi-entry lookups), bit offsets 0..7 and non-byte lengths are combined; "
            "content includes terminators straddling character boundaries, inconsistent size tags and random bytes. "
            "Values, raw buffers, padding side and the cursor after the field are compared with the reference. "
            "Sampled; the evidence lists the count per (character set, delimiter, length form) cell.",
            "Python's codec tables are trusted, the slicing is not; sub-domains the property leaves open are counted "
            "and not asserted.",
            "DESIGN.md 3/C07"),
    "C09": ("exploration",
            "Hypothesis-generated documents (XML and object routes), write -> load round trip judged by an independent "
            "structural dumper (incl. probed length adjusters) against the model and by identical decoding of "
            "synthesised packets",
            "Every generated definition is written with to_xml_tree and write_xml and loaded again; the canonical dump "
            "of the re-loaded definition must equal the dump before writing, and (XML route) the dump computed from the "
            "model without the library; packets synthesised to reach the document's containers, plus unrecognised and "
            "mismatched ones, must decode identically before and after. Write or re-load exceptions are violations. "
            "Sampled over documents with non-default values for every defaulted attribute.",
            "Empty descriptions/units mean absent; the dumper (vf/xdoc.py) is trusted; bounded by the supported subset.",
            "DESIGN.md 3/C09"),
    "C15": ("exploration",
            "Hypothesis-generated documents; metamorphic relations over serialisations: W(D)==W(D), stability of "
            "G2==G3 under write/load cycles, dump(D) unchanged by writing, namespace validity of every element",
            "For each generated definition (three namespace conventions and object-built) two writes, a write after "
            "parsing packets and two write_xml files must be byte-identical, the definition (dump, inheritor order, "
            "lookup order) must be unchanged by writing, the output must be well-formed with every element in the "
            "definition's namespace and no comment/PI nodes, and the second and third generation of a write/load "
            "cycle must be byte-identical. Sampled over documents.",
            "W is lxml tostring of to_xml_tree with the document's fixed header date.",
            "DESIGN.md 3/C15"),
    "C16": ("exploration",
            "Hypothesis-generated (rendering x load-history) cases, as generated histories and as a rule-based state "
            "machine, against an expectation computed from the model without the library (metamorphic: all renderings "
            "and histories must give the same dump)",
            "Each model is rendered by the harness's own XML writer in three namespace conventions with arbitrary "
            "prefixes, optional xmlns:xsi, comments/whitespace between the children of every element-only element, "
            "defaults written or omitted, and loaded after 0..4 earlier loads of other renderings, malformed inputs, "
            "wrong-prefix loads and documents failing inside the loader; the structural dump must equal the model's "
            "dump every time. Sampled.",
            "The library's process-wide namespace state is reset to its fresh-process value at the start of every case "
            "so that a case is a pure function of its own history.",
            "DESIGN.md 3/C16"),
    "C17": ("fault_enumeration",
            "fault enumeration: every single-point corruption operator at every applicable site of Hypothesis-generated "
            "documents, plus byte-level mutation of renderings, against object-graph invariants / 'load must raise'",
            "Uncorrupted documents must load into a graph where every entry, nested reference, type reference and "
            "inheritor list denotes the one object registered under that name; each of 20 corruption operators "
            "(dangling structural references, duplicated definitions unchanged or changed, deleted definitions, base / "
            "nesting / mixed / self cycles) applied at every site (quick: every 6th site per operator) must make "
            "from_xtce raise; byte-mutated renderings must either raise or load consistently. Complete over operator x "
            "site for each generated document in the thorough tier, sampled over documents.",
            "References made from criteria and length specifications are not part of the claim; RecursionError counts "
            "as a rejection.",
            "DESIGN.md 3/C17"),
    "C11": ("exploration",
            "Hypothesis-generated histories: several generators over sub-sequences of a packet pool, interleaved "
            "next() schedules and option combinations; metamorphic oracle (stream == concatenation of singletons) "
            "checked after every step, plus definition snapshots",
            "Up to four generators sharing one definition (all combinations of parse_bad_pkts, "
            "yield_unrecognized_packet_errors, ccsds_headers_only; bytes and BytesIO sources) are advanced in a drawn "
            "interleaving of up to 60 steps over streams mixing recognisable, unrecognisable and wrong-length packets; "
            "after each step the items produced so far must equal what fresh generators over the single packets "
            "yield, every yielded object must be new (the harness scribbles on it afterwards), and the definition's "
            "structural dump and serialisation must equal the snapshots taken before parsing. Sampled.",
            "A decoding error identical in stream and singleton runs is out of reach here (C01 judges singletons "
            "against the reference decoder).",
            "DESIGN.md 3/C11"),
    "C18": ("exploration",
            "Hypothesis-generated flat definitions and packet files (extreme field values, interleaved APIDs, several "
            "files, raw and derived modes); metamorphic oracle: every dataset cell against the library's own parsed "
            "value",
            "For definitions with one fixed layout per APID covering every parameter type and encoding, packets with "
            "extreme values are written to 1..3 files and create_dataset is compared cell by cell (keys, variables, "
            "row order across files, exact value incl. float bits, text and bytes) with the values packet_generator "
            "yields, in derived and raw mode; polymorphic streams must be rejected with ValueError. Sampled. One open "
            "known finding (D14b, trailing NULs dropped by NumPy's fixed-width dtypes) is matched by a narrow "
            "signature and the search continues past it.",
            "Decoding itself is C01's subject; integers wider than 64 bits are not generated (no NumPy dtype).",
            "DESIGN.md 3/C18"),
}

PENDING_REASON = "check not built yet in this round (planned, see DESIGN.md section 3); nothing is claimed for it"


def main():
    props = [json.loads(l) for l in open(os.path.join(VERIF, "properties.jsonl"))]
    checks, na = [], []
    for p in props:
        pid = p["id"]
        if pid in CHECKS:
            cat, tech, text, note, ref = CHECKS[pid]
            checks.append({
                "property_id": pid,
                "quick_cmd": f"./check.py {pid} --tier quick",
                "thorough_cmd": f"./check.py {pid} --tier thorough",
                "evidence_file": f"evidence/{pid}.json",
                "replay_cmd_template": f"./check.py {pid} --replay {{path}}",
                "engine": "vf",
                "level_claimed": {"category": cat, "text": text, "design_ref": ref},
                "level_note": note,
                "technique": tech,
            })
        else:
            na.append({"property_id": pid, "reason": PENDING_REASON})
    manifest = {
        "version": 1,
        "setup_cmd": "./setup.sh",
        "hooks": {
            "guard": "SPP_VERIF",
            "enable": "no source hooks: the harness wraps module attributes from outside; SPP_VERIF=1 is set by "
                      "check.py for form only",
            "baseline_off_cmd": "cd /repo && /venv/bin/python -m pytest -ra -q -p no:cacheprovider --timeout=900 "
                                "--continue-on-collection-errors",
            "source_commits": [],
            "add_only": True,
        },
        "engines": [{
            "name": "vf",
            "path": "vf/",
            "serves_properties": sorted(CHECKS),
            "kind_free_text": "Hypothesis strategies (incl. rule-based state machines), exhaustive enumeration of "
                              "finite sub-domains, atheris fuzzing supplement; independent reference decoder, "
                              "XML renderer and structural dumper as oracles; JSON replay files",
        }],
        "checks": checks,
        "not_applicable": na,
        "notes": "All checks: ./check.py <ID> --tier quick|thorough; exit 0 held / 1 VIOLATION / 2 harness error. "
                 "Known findings: known_findings.json. Seeded breakages: seeded/<id>/. See DESIGN.md.",
    }
    with open(os.path.join(VERIF, "MANIFEST.json"), "w") as f:
        json.dump(manifest, f, indent=1)
        f.write("\n")
    try:
        import sys
        sys.path.append(os.path.join(VERIF, ".deps"))
        import jsonschema
        jsonschema.validate(manifest, json.load(open("/root/.vp/MANIFEST.schema.json")))
        print("MANIFEST.json valid;", len(checks), "checks,", len(na), "not_applicable")
    except ImportError:
        print("MANIFEST.json written (jsonschema not available)")


if __name__ == "__main__":
    main()
