"""C08 – calibration, enumeration and boolean derivation follow XTCE; raw value kept."""
import math
from fractions import Fraction

from hypothesis import strategies as st
from lxml import etree

from vf import cal as calm
from vf import crit, refbits
from vf.c06 import mkval, plainvals
from vf.runner import exc_sig, hyp_run

PROPERTY = "C08"
LEVEL = "exploration"
RULE = ("(a) PolynomialCalibrator / SplineCalibrator.calibrate over Hypothesis-generated calibrators (1..6 terms, "
        "exponents 0..5, coefficients from {0, +-1, +-0.5, 1e-3, 1e6, random}; 1..8 strictly increasing knots, order "
        "0/1, both extrapolate settings; constructor and from_xml routes) x queries at EVERY knot, both end points, "
        "mid points, the floats adjacent to every knot, just outside and far outside the range, integer and float "
        "queries. (b) Integer/FloatDataEncoding.parse_value with 0..3 context calibrators (criteria of all three forms, "
        "overlapping so that precedence matters, referencing earlier parameters or the field's own raw value), "
        "with/without default calibrator, on packets where 0, 1 or several contexts match. (c) Enumerated (int/float/"
        "string encoded, calibrators attached, falsy keys, unlisted values) and Boolean (int/float encoded incl. -0.0 "
        "and NaN, calibrators attached) parameter types. Oracle: exact rational evaluation (vf/cal.py); exact equality "
        "for order-0 splines and at left knots of order-1 splines, otherwise |d| <= 1e-9*sum|terms|; outside the "
        "closed range: extrapolated value when enabled, CalibrationError otherwise (any other exception is a "
        "violation); selection = first matching context -> default -> raw; calibrated results are float-based with "
        "raw_value = the uncalibrated value; enumeration = label of the raw value or ValueError; boolean = bool(raw); "
        "both ignore calibrators. Non-trivial: query on a knot/end point or outside the range; >= 2 context "
        "calibrators with >= 1 match; enumeration/boolean with a calibrator attached or a falsy raw value.")
ASSUMPTIONS = ["coefficients are finite and all terms - and the powers x**n on their own, whatever the coefficient - stay within 1e300 (float overflow is not judged); non-finite queries "
               "are judged only for splines without extrapolation (they lie outside every closed range -> CalibrationError)",
               "a Comparison inside a context calibrator may reference the parameter being decoded only with "
               "useCalibratedValue=false (the documented own-raw-value case)"]
EXHAUSTIVE = {"quick": False, "thorough": False}


def E(tag, attrib):
    return etree.Element(tag, attrib)


def lib_cal(cal, route):
    from space_packet_parser.xtce import calibrators
    if route == "ctor":
        return calm.build_cal(cal)
    el = etree.fromstring(etree.tostring(calm.render_cal(E, cal, {"reverse_points": route == "xml-rev"})))
    cls = calibrators.PolynomialCalibrator if cal["t"] == "poly" else calibrators.SplineCalibrator
    return cls.from_xml(el)


def queries_for(cal, extra):
    qs = []
    if cal["t"] == "spline":
        xs = [p[0] for p in cal["points"]]
        for i, x in enumerate(xs):
            qs += [("knot" if 0 < i < len(xs) - 1 else "end point", x)]
            qs += [("adjacent to knot", math.nextafter(x, math.inf)), ("adjacent to knot", math.nextafter(x, -math.inf))]
            if float(x).is_integer():
                qs.append(("knot" if 0 < i < len(xs) - 1 else "end point", int(x)))
                if abs(x) >= 2.0 ** 53:
                    # integers that no double represents: the comparison with the knot must be exact
                    qs += [("integer next to a knot beyond 2**53", int(x) + 1), ("integer next to a knot beyond 2**53", int(x) - 1)]
            if i + 1 < len(xs):
                qs.append(("inside", (x + xs[i + 1]) / 2))
        span = (xs[-1] - xs[0]) or 1.0
        qs += [("outside", xs[0] - 1), ("outside", xs[-1] + 1), ("outside", xs[0] - 10 * span),
               ("outside", xs[-1] + 10 * span), ("outside", int(xs[-1]) + 2), ("outside", int(xs[0]) - 2)]
        qs += [("non-finite", float("nan")), ("non-finite", float("inf")), ("non-finite", float("-inf"))]
    for q in extra:
        qs.append(("drawn", q))
    return qs


def check_calibrate(ctx, case):
    from space_packet_parser import exceptions
    cal, route = case["cal"], case["route"]
    ctx.sample(f"calibrate {cal['t']}" + (f" order {cal['order']}" if cal["t"] == "spline" else ""), case)
    try:
        obj = lib_cal(cal, route)
    except Exception as e:
        ctx.count()
        return ctx.fail("construct-raised", f"{cal} via {route}: {e!r}", case, bucket="construct:" + exc_sig(e))
    extra = [float.fromhex(q) if isinstance(q, str) else q for q in case["queries"]]
    only = case.get("only")
    for label, q in queries_for(cal, extra):
        if only is not None and (only != (q.hex() if isinstance(q, float) else q)):
            continue
        ctx.count()
        name = cal["t"] + (f"/{cal['order']}" + ("/extrapolate" if cal["extrapolate"] else "") if cal["t"] == "spline" else "")
        ctx.cls(f"calibrate {name}: {label}")
        if label in ("knot", "end point", "outside", "adjacent to knot", "non-finite"):
            ctx.nontrivial((cal, q.hex() if isinstance(q, float) else q))
        sub = dict(case, only=(q.hex() if isinstance(q, float) else q))
        try:
            exp = calm.ref_cal(cal, q)
        except calm.RefUndefined:
            ctx.cls("calibrate: not judged (overflow/non-finite)")
            continue
        except calm.RefCalibrationError:
            exp = "error"
        try:
            got = obj.calibrate(q)
        except exceptions.CalibrationError:
            if exp != "error":
                return ctx.fail("unexpected-calibration-error", f"{cal} at {q!r}: CalibrationError, expected "
                                                                f"{float(exp[0])!r}", sub)
            ctx.cls("calibrate: CalibrationError as required")
            continue
        except Exception as e:
            return ctx.fail("calibrate-raised", f"{cal} at {q!r} ({label}): raised {e!r}, expected "
                                                f"{'CalibrationError' if exp == 'error' else float(exp[0])}", sub,
                            bucket="calibrate-raised:" + exc_sig(e))
        if exp == "error":
            return ctx.fail("no-calibration-error", f"{cal} at {q!r}: returned {got!r} outside the range without "
                                                    f"extrapolation", sub)
        if not isinstance(got, (int, float)) or isinstance(got, bool) or not calm.close(float(got), *exp):
            return ctx.fail("calibrate-value", f"{cal} at {q!r} ({label}): got {got!r}, expected {float(exp[0])!r} "
                                               f"(exact={exp[2]})", sub,
                            bucket=f"calibrate-value:{cal['t']}:{cal.get('order')}:{label}")
    return None


# ---- (b) selection ---------------------------------------------------------------------------------

def lib_enc(enc, route):
    from space_packet_parser.xtce import encodings
    if route == "ctor":
        return calm.build_numeric_enc(enc)
    el = etree.fromstring(etree.tostring(calm.render_numeric_enc(E, enc, {"omit_defaults": route == "xml-omit"})))
    cls = encodings.IntegerDataEncoding if enc["k"] == "int" else encodings.FloatDataEncoding
    return cls.from_xml(el)


def make_packet(assign, field_bits, offset):
    from space_packet_parser import packets
    total = offset + len(field_bits)
    bits = ("10" * offset)[:offset] + field_bits + "0" * ((-total) % 8)
    pkt = packets.CCSDSPacket(raw_data=refbits.bytes_of_bits(bits))
    for name, spec in assign.items():
        pkt[name] = mkval(spec)
    pkt.raw_data.pos = offset
    return pkt


def judge_numeric(what, v, raw, sel, cal, ctx=None):
    """compare a decoded numeric value with the reference selection. returns None or (kind, detail)"""
    rv = getattr(v, "raw_value", None)
    if isinstance(raw, float):
        if not isinstance(rv, float) or not refbits.same_float(float(rv), raw):
            return "raw_value", f"{what}: raw_value {rv!r}, expected {raw!r}"
    elif not isinstance(rv, int) or isinstance(rv, (bool, float)) or int(rv) != raw:
        return "raw_value", f"{what}: raw_value {rv!r}, expected {raw!r}"
    if sel == "raw":
        if isinstance(raw, float):
            ok = isinstance(v, float) and refbits.same_float(float(v), raw)
        else:
            ok = isinstance(v, int) and not isinstance(v, (bool, float)) and int(v) == raw
        if not ok:
            return "uncalibrated-value", f"{what}: value {v!r} ({type(v).__name__}), expected the raw value {raw!r}"
        return None
    if not isinstance(v, float):
        return "calibrated-not-float", f"{what}: calibrated value {v!r} is {type(v).__name__}, not float-based"
    try:
        exp = calm.ref_cal(cal, raw)
    except calm.RefUndefined:
        return None
    if not calm.close(float(v), *exp):
        return "calibrated-value", (f"{what}: value {float(v)!r}, expected {float(exp[0])!r} from the {sel} "
                                    f"calibrator {cal}")
    return None


def make_param(case):
    from space_packet_parser.xtce import parameter_types, parameters
    e = lib_enc(case["enc"], case["route"])
    ptcls = parameter_types.IntegerParameterType if case["ptype"] == "int" else parameter_types.FloatParameterType
    return parameters.Parameter("P", ptcls("T", e))


def check_select_sequence(ctx, case):
    """the same parameter (hence the same encoding and calibrator objects) decodes 2..5 packets one after the other;
    every decode must select by the criteria of *its* packet, whatever matched before"""
    try:
        param = make_param(case)
    except Exception as ex:
        return ctx.fail("construct-raised", f"{case['enc']} via {case['route']}: {ex!r}", case,
                        bucket="construct:" + exc_sig(ex))
    sels = []
    for i, step in enumerate(case["steps"]):
        before = len(ctx.violations)
        check_select(ctx, case, param, step, i)
        if len(ctx.violations) > before:
            return True
        try:
            fb = format(step["field"] % (1 << case["enc"]["bits"]), f"0{case['enc']['bits']}b")
            sels.append(calm.ref_select(case["enc"], calm.ref_raw(case["enc"], fb),
                                        {n: plainvals(x) for n, x in step["assign"].items()})[:2])
        except (crit.RefError, TypeError):
            sels.append(None)
    if len(set(map(str, sels))) > 1:
        ctx.cls("sequence: the selected calibrator changes between steps")
    for a, b in zip(sels, sels[1:]):
        if a and b and a[0] == "ctx" and b[0] == "ctx" and b[1] < a[1]:
            ctx.cls("sequence: a later context, then an earlier one")
    return None


def check_select(ctx, case, param=None, step=None, stepno=None):
    """one evaluation; with `param` given, the same parameter object is being evaluated again (part `sequence`)"""
    from space_packet_parser import exceptions
    from space_packet_parser.xtce import parameter_types, parameters
    enc, route = case["enc"], case["route"]
    assign = case["assign"] if step is None else step["assign"]
    field = case["field"] if step is None else step["field"]
    ctx.count()
    ctx.cls("part select / sequence")
    fbits = format(field % (1 << enc["bits"]), f"0{enc['bits']}b")
    raw = calm.ref_raw(enc, fbits)
    values = {n: plainvals(s) for n, s in assign.items()}
    what = f"enc {enc} on raw {raw!r} with {assign}"
    if stepno is not None:
        what = f"decode {stepno + 1} of {len(case['steps'])} by one parameter object: " + what
    try:
        sel, idx, cal = calm.ref_select(enc, raw, values)
    except (crit.RefError, TypeError) as e:
        ctx.cls("select: criteria undefined (skipped)")
        return None
    nctx = len(enc.get("ccals") or [])
    matches = 0
    for c in enc.get("ccals") or []:
        try:
            matches += bool(crit.ref_match(c["match"], values, current=raw))
        except (crit.RefError, TypeError):
            pass
    ctx.cls(f"select: {sel}" + (f" (context {idx} of {nctx})" if sel == "ctx" else f" ({nctx} contexts)"))
    ctx.cls(f"select: {min(matches, 2)}{'+' if matches >= 2 else ''} contexts match")
    if nctx >= 2 and matches >= 1:
        ctx.nontrivial(case)
        ctx.cls("select nontrivial")
    ctx.sample(f"select {sel}", case)
    if param is None:
        try:
            param = make_param(case)
        except Exception as ex:
            return ctx.fail("construct-raised", f"{what} via {route}: {ex!r}", case, bucket="construct:" + exc_sig(ex))
    pkt = make_packet(assign, fbits, case["offset"])
    expect_error = False
    if cal is not None:
        try:
            calm.ref_cal(cal, raw)
        except calm.RefCalibrationError:
            expect_error = True
        except calm.RefUndefined:
            ctx.cls("select: not judged (overflow/non-finite)")
            return None
    import warnings
    try:
        with warnings.catch_warnings():
            warnings.simplefilter("ignore")
            param.parse(pkt)
    except exceptions.CalibrationError:
        if expect_error:
            return None
        return ctx.fail("unexpected-calibration-error", f"{what}: CalibrationError but the {sel} calibrator covers "
                                                        f"the raw value", case)
    except Exception as ex:
        return ctx.fail("parse-raised", f"{what}: raised {ex!r}", case, bucket="parse-raised:" + exc_sig(ex))
    if expect_error:
        return ctx.fail("no-calibration-error", f"{what}: value {pkt['P']!r} although the selected ({sel}) spline does "
                                                f"not cover the raw value and extrapolation is off", case)
    r = judge_numeric(what, pkt["P"], raw, sel, cal)
    if r:
        return ctx.fail(r[0], r[1], case, bucket=r[0] + ":" + sel)
    if pkt.raw_data.pos != case["offset"] + enc["bits"]:
        return ctx.fail("cursor", f"{what}: cursor {pkt.raw_data.pos}", case)
    return None


# ---- (c) enumerations and booleans ---------------------------------------------------------------------

def check_enum_bool(ctx, case):
    from space_packet_parser import packets
    from space_packet_parser.xtce import encodings, parameter_types, parameters
    ctx.count()
    ctx.cls("part enum_bool")
    enc = case["enc"]
    kind = case["kind"]
    ctx.sample(f"{kind} over {enc['k']}", case)
    if enc["k"] == "str":
        nbits = enc["bits"]
        fbits = format(case["field"] % (1 << nbits), f"0{nbits}b")
        raw = refbits.bytes_of_bits(fbits)
        e = encodings.StringDataEncoding(encoding="ISO-8859-1", fixed_raw_length=nbits)
    elif enc["k"] == "bin":
        nbits = enc["bits"]
        fbits = format(case["field"] % (1 << nbits), f"0{nbits}b")
        raw = refbits.bytes_of_bits("0" * ((-nbits) % 8) + fbits)    # binary values are left-padded to whole bytes
        e = encodings.BinaryDataEncoding(fixed_size_in_bits=nbits)
    else:
        fbits = format(case["field"] % (1 << enc["bits"]), f"0{enc['bits']}b")
        raw = calm.ref_raw(enc, fbits)
        e = lib_enc(enc, case["route"])
    has_cal = enc.get("dcal") is not None or bool(enc.get("ccals"))
    falsy = not raw
    if isinstance(raw, int) and int(float(raw)) != raw:
        ctx.cls(f"{kind}: raw value that no double represents")
    ctx.cls(f"{kind}: " + ("calibrator attached" if has_cal else "no calibrator") + (", falsy raw" if falsy else ""))
    if has_cal or falsy:
        ctx.nontrivial(case)
        ctx.cls("enum/bool nontrivial")
    what = f"{kind} over {enc} raw {raw!r}"
    if kind == "enum":
        keys = [bytes.fromhex(k) if enc["k"] == "str" else (float.fromhex(k) if enc["k"] == "float" else k)
                for k, _ in case["enum"]]
        labels = [lab for _, lab in case["enum"]]
        enumeration = dict(zip(keys, labels))
        exp = None
        for k_, lab in enumeration.items():
            if k_ == raw:
                exp = lab
                break
        pt = parameter_types.EnumeratedParameterType("T", e, enumeration=enumeration)
    else:
        exp = bool(raw)
        import warnings as _w
        with _w.catch_warnings():
            _w.simplefilter("ignore")    # "boolean over a string/binary encoding" is announced by a warning
            pt = parameter_types.BooleanParameterType("T", e)
    if case.get("type_route") == "xml" and enc["k"] not in ("str", "bin"):
        # the whole parameter type (encoding and enumeration list) from the harness's own XML
        from vf import xdoc
        o = dict(xdoc.DEFAULT_OPTS, ns="none")
        model = {"kind": kind, "name": "T", "unit": None, "enc": enc, "enum": case.get("enum")}
        try:
            el = etree.fromstring(etree.tostring(xdoc.render_type(xdoc.Maker(o), model, o)))
            pt = type(pt).from_xml(el)
        except Exception as ex:
            return ctx.fail("construct-raised", f"{what}: parameter type from XML: {ex!r}", case,
                            bucket="construct:" + exc_sig(ex))
        ctx.cls(f"{kind}: parameter type loaded from XML")
    pkt = packets.CCSDSPacket(raw_data=refbits.bytes_of_bits(fbits + "0" * ((-len(fbits)) % 8)))
    import warnings
    try:
        with warnings.catch_warnings():
            warnings.simplefilter("ignore")
            parameters.Parameter("P", pt).parse(pkt)
    except ValueError as ex:
        if kind == "enum" and exp is None:
            ctx.cls("enum: unlisted value -> ValueError")
            return None
        return ctx.fail("parse-raised", f"{what}: raised {ex!r}", case, bucket="eb-raised:" + exc_sig(ex))
    except Exception as ex:
        return ctx.fail("parse-raised", f"{what}: raised {ex!r}", case, bucket="eb-raised:" + exc_sig(ex))
    v = pkt["P"]
    if kind == "enum":
        if exp is None:
            return ctx.fail("enum-unlisted-accepted", f"{what}: value {v!r} for an unlisted raw value", case)
        if not isinstance(v, str) or str(v) != exp:
            return ctx.fail("enum-label", f"{what}: value {v!r}, expected label {exp!r}", case)
    else:
        if not isinstance(v, int) or bool(v) != exp or repr(v) != repr(exp):
            return ctx.fail("bool-value", f"{what}: value {v!r}, expected {exp!r}", case)
    rv = getattr(v, "raw_value", None)
    same = (refbits.same_float(float(rv), raw) if isinstance(raw, float) and isinstance(rv, float)
            else type(rv).__mro__[-2] is type(raw).__mro__[-2] and rv == raw) if rv is not None else False
    if isinstance(raw, int) and (not isinstance(rv, int) or isinstance(rv, float)):
        same = False
    if not same:
        return ctx.fail("raw_value", f"{what}: raw_value {rv!r} ({type(rv).__name__}), expected the uncalibrated "
                                     f"{raw!r}", case, bucket="eb-raw:" + kind)
    return None


# ---- strategies --------------------------------------------------------------------------------------

@st.composite
def gen_calibrate(draw):
    cal = draw(calm.st_cal())
    route = draw(st.sampled_from(["ctor", "xml", "xml-rev"]))
    qs = draw(st.lists(st.one_of(st.integers(-2 ** 31, 2 ** 32), st.integers(-300, 70000),
                                 st.floats(-1e7, 1e7, allow_nan=False).map(float.hex)), max_size=6))
    return {"cal": cal, "route": route, "queries": qs}


SPEC_BY_KIND = {
    "int": st.builds(lambda v: {"k": "int", "v": v}, st.sampled_from([0, 1, 2, 3, 7, -1, 255])),
    "float": st.builds(lambda v, r: {"k": "float", "v": v, "raw": r}, st.sampled_from([0.0, 1.0, 2.5, -1.0]),
                       st.sampled_from([0, 1, 2, 5])),
    "bool": st.builds(lambda v: {"k": "bool", "v": v, "raw": int(v)}, st.booleans()),
    "enum": st.builds(lambda v, r: {"k": "enum", "v": v, "raw": r}, st.sampled_from(["ON", "OFF", ""]),
                      st.sampled_from([0, 1, 2])),
}


def st_spec(name_hint=None):
    return st.one_of(*SPEC_BY_KIND.values())


def lits_for(spec, cal_sel):
    v, raw = plainvals(spec)
    x = v if cal_sel else raw
    if isinstance(x, bool):
        return ["0", "1"]
    if isinstance(x, int):
        return [str(x), str(x + 1), "0", "1", str(x - 1)]
    if isinstance(x, float):
        return [repr(x), repr(x + 0.5), "0.0", "1.0"]
    return [x, "ON", "OFF", ""]


@st.composite
def gen_match(draw, assign, own, own_raw):
    """a context match over earlier parameters and (Comparison forms only) the field's own raw value"""
    names = sorted(assign)
    ops = sorted(crit.SPELLINGS)

    def one_cmp():
        use_own = draw(st.integers(0, 2)) == 0 or not names
        if use_own:
            lit = draw(st.sampled_from([repr(own_raw), repr(own_raw + 1), "0", "1", "3"])) if isinstance(own_raw, int) \
                else draw(st.sampled_from([repr(own_raw), "0.0", "1.0", "-1.5"]))
            if isinstance(own_raw, float) and own_raw != own_raw:
                lit = "0.0"
            return {"ref": own, "op": draw(st.sampled_from(ops)), "value": lit, "cal": False}
        n = draw(st.sampled_from(names))
        c = draw(st.booleans())
        return {"ref": n, "op": draw(st.sampled_from(ops)), "value": draw(st.sampled_from(lits_for(assign[n], c))),
                "cal": c}

    def one_cond():
        n = draw(st.sampled_from(names))
        c = draw(st.booleans())
        if draw(st.integers(0, 3)) == 0:
            m = draw(st.sampled_from(names))
            return {"left": n, "lcal": c, "op": draw(st.sampled_from(ops)), "right": m, "rcal": draw(st.booleans()),
                    "value": None}
        lit = draw(st.sampled_from([x for x in lits_for(assign[n], c) if x != ""] or ["x"]))
        return {"left": n, "lcal": c, "op": draw(st.sampled_from(ops)), "right": None, "rcal": False, "value": lit}
    form = draw(st.sampled_from(["cmp", "list", "bool"] if names else ["cmp", "list"]))
    if form == "cmp":
        return {"form": "cmp", "cmps": [one_cmp()]}
    if form == "list":
        return {"form": "list", "cmps": [one_cmp() for _ in range(draw(st.integers(1, 3)))]}
    t = draw(st.sampled_from(["cond", "and", "or"]))
    if t == "cond":
        return {"form": "bool", "expr": {"t": "cond", "cond": one_cond()}}
    other = "or" if t == "and" else "and"
    subs = [{"t": other, "conds": [one_cond() for _ in range(draw(st.integers(1, 2)))], "subs": []}
            for _ in range(draw(st.integers(0, 2)))]
    return {"form": "bool", "expr": {"t": t, "conds": [one_cond() for _ in range(draw(st.integers(1, 2)))],
                                     "subs": subs}}


@st.composite
def gen_numeric_enc(draw, field=None):
    if draw(st.booleans()):
        bits = draw(st.one_of(st.integers(1, 16), st.sampled_from([8, 16, 24, 32]), st.sampled_from([33, 53, 54, 56, 63, 64])))
        enc = {"k": "int", "bits": bits, "sign": draw(st.sampled_from(["unsigned", "signed", "twosComplement"])),
               "order": draw(st.sampled_from([calm.BE, calm.LE])) if bits % 8 == 0 else calm.BE}
    else:
        fmt = draw(st.sampled_from(["IEEE754", "IEEE754_1985", "MILSTD_1750A"]))
        bits = 32 if fmt == "MILSTD_1750A" else draw(st.sampled_from([16, 32, 64]))
        enc = {"k": "float", "bits": bits, "fmt": fmt, "order": draw(st.sampled_from([calm.BE, calm.LE]))}
    return enc


FLOAT_FIELDS = {16: [0, 0x8000, 0x3C00, 0x4000, 0xC000, 0x7C00, 0x7E00, 0x4900],
                32: [0, 0x80000000, 0x3F800000, 0x40000000, 0xC0400000, 0x7F800000, 0x7FC00000, 0x42C80000],
                64: [0, 0x8000000000000000, 0x3FF0000000000000, 0x4000000000000000, 0x7FF0000000000000,
                     0x7FF8000000000000, 0x4059000000000000]}


@st.composite
def gen_field(draw, enc):
    if enc["k"] == "int":
        wide = [st.sampled_from([2 ** 53 + 1, 2 ** 53 + 3, 2 ** 53, 2 ** enc["bits"] - 2, 2 ** (enc["bits"] - 1) + 1,
                                 2 ** (enc["bits"] - 1) - 1])] * 2 if enc["bits"] > 53 else []
        return draw(st.one_of(st.integers(0, min(2 ** enc["bits"] - 1, 12)), st.integers(0, 2 ** enc["bits"] - 1),
                              st.just(2 ** enc["bits"] - 1), st.just(2 ** (enc["bits"] - 1)), *wide))
    if enc["fmt"] == "MILSTD_1750A":
        return draw(st.one_of(st.sampled_from([0, 0x40000001, 0x40000002, 0x60000002, 0xC0000001, 0x40000005]),
                              st.integers(0, 2 ** 32 - 1)))
    v = draw(st.one_of(st.sampled_from(FLOAT_FIELDS[enc["bits"]]), st.integers(0, 2 ** enc["bits"] - 1)))
    if enc["order"] == calm.LE:
        v = int(refbits.reverse_bytes(format(v, f"0{enc['bits']}b")), 2)
    return v


@st.composite
def gen_select(draw):
    enc = draw(gen_numeric_enc())
    field = draw(gen_field(enc))
    raw = calm.ref_raw(enc, format(field, f"0{enc['bits']}b"))
    names = draw(st.lists(st.sampled_from(["A", "B", "C", "MODE"]), max_size=3, unique=True))
    assign = {n: draw(st_spec()) for n in names}
    nctx = draw(st.sampled_from([0, 1, 2, 2, 3, 3]))
    ccals = []
    for _ in range(nctx):
        ccals.append({"match": draw(gen_match(assign, "P", raw)), "cal": draw(calm.st_cal())})
    enc["ccals"] = ccals or None
    enc["dcal"] = draw(st.one_of(st.none(), calm.st_cal()))
    return {"enc": enc, "assign": assign, "field": field, "offset": draw(st.integers(0, 9)),
            "route": draw(st.sampled_from(["ctor", "xml", "xml-omit"])),
            "ptype": draw(st.sampled_from(["int", "float"]))}


@st.composite
def gen_select_sequence(draw):
    case = draw(gen_select())
    enc = case["enc"]
    steps = [{"assign": case["assign"], "field": case["field"]}]
    for _ in range(draw(st.integers(1, 4))):
        # a numeric parameter may be a calibrated float in one packet and an uncalibrated int in the next
        assign = {n: (draw(st.one_of(SPEC_BY_KIND["int"], SPEC_BY_KIND["float"]) if x["k"] in ("int", "float")
                           else SPEC_BY_KIND[x["k"]]) if draw(st.integers(0, 3)) else x)
                  for n, x in case["assign"].items()}
        field = draw(st.one_of(st.just(case["field"]), gen_field(enc)))
        steps.append({"assign": assign, "field": field})
    order = draw(st.permutations(range(len(steps))))
    case["steps"] = [steps[i] for i in order]
    return case


@st.composite
def gen_enum_bool(draw):
    kind = draw(st.sampled_from(["enum", "bool"]))
    # (a boolean over a string or binary encoding is legal, the library warns: its raw value is the byte string)
    which = draw(st.sampled_from(["int", "int", "float", "str"] if kind == "enum" else ["int", "int", "float", "float", "str", "bin"]))
    if which == "bin":
        enc = {"k": "bin", "bits": draw(st.sampled_from([8, 16, 3, 12, 1]))}
        field = draw(st.one_of(st.just(0), st.integers(0, 2 ** enc["bits"] - 1)))
    elif which == "str":
        enc = {"k": "str", "bits": draw(st.sampled_from([8, 16]))}
        field = draw(st.one_of(st.sampled_from([0, 0x41, 0x4142, 0x30]), st.integers(0, 2 ** enc["bits"] - 1)))
        field %= 2 ** enc["bits"]
    else:
        while True:
            enc = draw(gen_numeric_enc())
            if enc["k"] == which:
                break
        if which == "int" and draw(st.integers(0, 3)) == 0:
            enc["bits"] = draw(st.sampled_from([54, 56, 63, 64]))   # values a double cannot hold
            if enc["bits"] % 8:
                enc["order"] = calm.BE
        field = draw(gen_field(enc))
        if draw(st.booleans()):
            enc["dcal"] = draw(calm.st_cal())
        else:
            enc["dcal"] = None
        enc["ccals"] = [{"match": {"form": "cmp", "cmps": [{"ref": "P", "op": ">=", "value": "0" if which == "int"
                                                           else "0.0", "cal": False}]},
                         "cal": draw(calm.st_cal())}] if draw(st.integers(0, 3)) == 0 else None
    case = {"kind": kind, "enc": enc, "field": field, "route": draw(st.sampled_from(["ctor", "xml"])),
            "type_route": draw(st.sampled_from(["ctor", "xml"]))}
    if kind == "enum":
        if which == "str":
            raw = field.to_bytes(enc["bits"] // 8, "big")
            keys = draw(st.lists(st.binary(min_size=len(raw), max_size=len(raw)), max_size=4, unique=True))
            if draw(st.booleans()) and raw not in keys:
                keys.append(raw)
            case["enum"] = [[k.hex(), f"L{i}"] for i, k in enumerate(keys)]
        else:
            raw = calm.ref_raw(enc, format(field, f"0{enc['bits']}b"))
            if which == "int":
                keys = draw(st.lists(st.integers(-4, 12), max_size=6, unique=True))
                if draw(st.integers(0, 3)) and raw not in keys:
                    keys.append(raw)
                case["enum"] = [[k, f"L{i}"] for i, k in enumerate(keys)]
            else:
                keys = draw(st.lists(st.sampled_from([0.0, 1.0, -1.0, 2.0, 0.5]), max_size=4, unique=True))
                if draw(st.integers(0, 3)) and raw == raw and raw not in keys:
                    keys.append(raw)
                case["enum"] = [[float(k).hex(), f"L{i}"] for i, k in enumerate(keys)]
    return case


def part_calibrate(ctx, examples):
    hyp_run(ctx, gen_calibrate(), check_calibrate, examples)


def part_select(ctx, examples):
    hyp_run(ctx, gen_select(), check_select, examples)


def part_sequence(ctx, examples):
    hyp_run(ctx, gen_select_sequence(), check_select_sequence, examples, shrink_budget=300)


def part_enum_bool(ctx, examples):
    hyp_run(ctx, gen_enum_bool(), check_enum_bool, examples)


PARTS = {"calibrate": part_calibrate, "select": part_select, "enum_bool": part_enum_bool, "sequence": part_sequence}
REPLAY = {"calibrate": check_calibrate, "select": check_select, "enum_bool": check_enum_bool,
          "sequence": check_select_sequence}
KNOWN = {}
FLOORS = {"sequence: a later context, then an earlier one": ("", 0.0003),
          "select nontrivial": ("part select / sequence", 0.1), "enum/bool nontrivial": ("part enum_bool", 0.15),
          "enum: raw value that no double represents": ("part enum_bool", 0.005)}


def plan(tier, seed):
    q = tier == "quick"
    tasks = []
    for _ in range(6):
        tasks.append(("calibrate", {"examples": 300 if q else 20000}))
    for _ in range(7):
        tasks.append(("select", {"examples": 300 if q else 20000}))
    for _ in range(3):
        tasks.append(("enum_bool", {"examples": 300 if q else 20000}))
    for _ in range(4):
        tasks.append(("sequence", {"examples": 200 if q else 12000}))
    return tasks
