"""C13 – primary-header construction and header accessors are exact inverses."""
from itertools import islice, product

from hypothesis import strategies as st

from vf.runner import exc_sig, hyp_run

PROPERTY = "C13"
LEVEL = "exploration"
RULE = ("Exhaustive parts: all 2^16 values of header word 1 (version,type,shflag,apid) and of word 2 (seqflags,"
        "seqcount) with the remaining fields varied deterministically per case; data lengths {1,2,255,256,257,65535,"
        "65536} + strided (quick) / all 1..65536 (thorough); the 5^7 product of boundary values {min,min+1,mid,max-1,"
        "max} of all seven fields; converse direction: 6-byte headers taking every value of each 16-bit word (length "
        "word strided in quick) + data of the declared length framed by ccsds_generator; rejections: every field at "
        "{-1,max+1,+-2^40}, data of 0 and 65537 bytes. Generated part: Hypothesis over all fields and data content. "
        "Oracle: own layout by string formatting f'{v:03b}{t:01b}{s:01b}{apid:011b}{sf:02b}{sc:014b}{len-1:016b}'. "
        "Non-trivial: at least two of the seven fields non-zero; distinct by construction in enumerations, by hash of "
        "(fields, data length, data prefix) in generated cases.")
ASSUMPTIONS = ["CCSDS 133.0-B primary header layout as stated in the property",
               "ccsds_generator on a bytes object holding exactly one packet terminates (end-of-stream behaviour is C10)"]
EXHAUSTIVE = {"quick": False, "thorough": True}

MAXES = (7, 1, 1, 2047, 3, 16383)
NAMES = ("version_number", "type", "secondary_header_flag", "apid", "sequence_flags", "sequence_count")


def _lib():
    from space_packet_parser import packets
    return packets


def layout(fields, data):
    v, t, s, apid, sf, sc = fields
    bits = f"{v:03b}{t:01b}{s:01b}{apid:011b}{sf:02b}{sc:014b}{len(data) - 1:016b}"
    assert len(bits) == 48
    return int(bits, 2).to_bytes(6, "big") + data


def check_construct(ctx, fields, data, frame=True):
    """Returns None or (kind, detail)."""
    packets = _lib()
    kwargs = dict(zip(NAMES, fields))
    try:
        pkt = packets.create_ccsds_packet(data, **kwargs)
    except Exception as e:
        return "construct-raised:" + exc_sig(e), f"create_ccsds_packet({kwargs}, len(data)={len(data)}) raised {e!r}"
    expected = layout(fields, data)
    if not isinstance(pkt, bytes) or bytes(pkt) != expected:
        return "layout", (f"fields {kwargs} data[{len(data)}]: header {bytes(pkt)[:6].hex()} expected "
                          f"{expected[:6].hex()}; body equal: {bytes(pkt)[6:] == data}")
    got = (pkt.version_number, pkt.type, pkt.secondary_header_flag, pkt.apid, pkt.sequence_flags,
           pkt.sequence_count)
    if tuple(int(x) for x in got) != tuple(fields):
        return "accessors", f"fields {kwargs}: accessors return {got}"
    if pkt.data_length != len(data) - 1:
        return "data-length", f"data_length {pkt.data_length} for {len(data)} data bytes"
    hv = tuple(int(x) for x in pkt.header_values)
    if hv != tuple(fields) + (len(data) - 1,):
        return "header-values", f"header_values {hv} expected {tuple(fields) + (len(data) - 1,)}"
    # the other order on a fresh object: header_values first, the single accessors afterwards (and str())
    fresh = packets.RawPacketData(bytes(pkt))
    hv2 = tuple(int(x) for x in fresh.header_values)
    got2 = (fresh.version_number, fresh.type, fresh.secondary_header_flag, fresh.apid, fresh.sequence_flags,
            fresh.sequence_count, fresh.data_length)
    if hv2 != tuple(fields) + (len(data) - 1,) or tuple(int(x) for x in got2) != hv2:
        return "accessors-after-header-values", (f"fields {kwargs}: header_values {hv2}, accessors read afterwards {got2}")
    text = str(fresh)
    for name, val in zip(("version_number", "type", "secondary_header_flag", "apid", "sequence_flags", "sequence_count",
                          "data_length"), hv2):
        if f"{name}={val}" not in text:
            return "str", f"str(packet) {text!r} does not show {name}={val}"
    if frame:
        try:
            framed = list(islice(packets.ccsds_generator(bytes(pkt)), 3))
        except Exception as e:
            return "reframe-raised:" + exc_sig(e), f"ccsds_generator(packet) raised {e!r}"
        if len(framed) != 1 or bytes(framed[0]) != expected:
            return "reframe", f"re-framing yields {len(framed)} item(s) {[bytes(f)[:8].hex() for f in framed]}"
    return None


def nontrivial_fields(fields, data):
    return sum(1 for x in tuple(fields) + (len(data) - 1,) if x) >= 2


def _data(n, k=0):
    # cheap deterministic content that differs per case
    if n <= 64:
        return bytes((k + i * 31) & 0xFF for i in range(n))
    base = bytes((k + i * 31) & 0xFF for i in range(64))
    return (base * (n // 64 + 1))[:n]


def _case(fields, data):
    return {"fields": list(fields), "data_len": len(data), "data_head": data[:16].hex()}


def _fail(ctx, r, fields, data):
    ctx.fail(r[0], r[1], {"fields": list(fields), "data": data.hex() if len(data) <= 64 else None,
                          "data_len": len(data), "data_k": None}, bucket=r[0])


SMALL_LENS = (1, 2, 3, 7, 8, 255, 256, 257)


def part_word1(ctx, lo, hi):
    n = nt = 0
    for w in range(lo, hi):
        v, t, s, apid = w >> 13, (w >> 12) & 1, (w >> 11) & 1, w & 2047
        sf, sc = w % 4, (w * 7919 + 13) % 16384
        data = _data(SMALL_LENS[w % len(SMALL_LENS)], w)
        fields = (v, t, s, apid, sf, sc)
        r = check_construct(ctx, fields, data)
        n += 1
        nt += nontrivial_fields(fields, data)
        if r:
            _fail(ctx, r, fields, data)
        if n <= 2:
            ctx.sample("word1-enumeration", _case(fields, data))
    ctx.count(n)
    ctx.nontrivial_distinct(nt)
    ctx.cls("word1 (version,type,shflag,apid) enumerated", n)
    ctx.domain("header word 1 values", n)


def part_word2(ctx, lo, hi):
    n = nt = 0
    for w in range(lo, hi):
        sf, sc = w >> 14, w & 16383
        v, t, s, apid = w % 8, (w >> 3) & 1, (w >> 4) & 1, (w * 48271 + 5) % 2048
        data = _data(SMALL_LENS[(w >> 2) % len(SMALL_LENS)], w)
        fields = (v, t, s, apid, sf, sc)
        r = check_construct(ctx, fields, data)
        n += 1
        nt += nontrivial_fields(fields, data)
        if r:
            _fail(ctx, r, fields, data)
        if n <= 2:
            ctx.sample("word2-enumeration", _case(fields, data))
    ctx.count(n)
    ctx.nontrivial_distinct(nt)
    ctx.cls("word2 (seqflags,seqcount) enumerated", n)
    ctx.domain("header word 2 values", n)


def part_lengths(ctx, lengths):
    n = nt = 0
    for ln in lengths:
        fields = (ln % 8, ln & 1, (ln >> 1) & 1, (ln * 31) % 2048, (ln >> 3) % 4, (ln * 17) % 16384)
        data = _data(ln, ln)
        r = check_construct(ctx, fields, data)
        n += 1
        nt += nontrivial_fields(fields, data)
        if r:
            _fail(ctx, r, fields, data)
        if n <= 2:
            ctx.sample("length-enumeration", _case(fields, data))
    ctx.count(n)
    ctx.nontrivial_distinct(nt)
    ctx.cls("data lengths enumerated", n)
    ctx.domain("data lengths", n)


def _bvals(mx):
    return sorted({0, min(1, mx), mx // 2, max(mx - 1, 0), mx})


def part_boundary(ctx, index, of):
    """5^7 product of boundary values (fewer for 1-bit fields), split round-robin."""
    lens = (1, 2, 32768, 65535, 65536)
    datas = {ln: _data(ln, 7) for ln in lens}
    n = nt = 0
    for i, combo in enumerate(product(*[_bvals(m) for m in MAXES], lens)):
        if i % of != index:
            continue
        fields, data = combo[:6], datas[combo[6]]
        r = check_construct(ctx, fields, data)
        n += 1
        nt += nontrivial_fields(fields, data)
        if r:
            _fail(ctx, r, fields, data)
        if n <= 1:
            ctx.sample("boundary-product", _case(fields, data))
    ctx.count(n)
    ctx.nontrivial_distinct(nt)
    ctx.cls("boundary product cases", n)
    ctx.domain("boundary product", n)


def check_converse(ctx, header: bytes, k=0):
    packets = _lib()
    bits = "".join(f"{b:08b}" for b in header)
    declared = int(bits[32:48], 2) + 1
    stream = header + _data(declared, k)
    try:
        items = list(islice(packets.ccsds_generator(stream), 3))
    except Exception as e:
        return "converse-raised:" + exc_sig(e), f"ccsds_generator raised {e!r} on header {header.hex()}"
    if len(items) != 1 or bytes(items[0]) != stream:
        return "converse-framing", f"header {header.hex()}: {len(items)} item(s) yielded"
    p = items[0]
    exp = (int(bits[0:3], 2), int(bits[3:4], 2), int(bits[4:5], 2), int(bits[5:16], 2), int(bits[16:18], 2),
           int(bits[18:32], 2), int(bits[32:48], 2))
    got = (p.version_number, p.type, p.secondary_header_flag, p.apid, p.sequence_flags, p.sequence_count,
           p.data_length)
    if tuple(int(x) for x in got) != exp or tuple(int(x) for x in p.header_values) != exp:
        return "converse-accessors", f"header {header.hex()}: accessors {got}, header_values {p.header_values}, layout {exp}"
    return None


def part_converse(ctx, word, lo, hi, stride=1, offset=0):
    n = nt = 0
    for w in range(lo + offset, hi, stride):
        other1 = (w * 40503 + 77) % 65536
        other2 = (w * 25173 + 13849) % 65536
        small = (w * 7) % 300
        if word == 0:
            words = (w, other1, small)
        elif word == 1:
            words = (other1, w, small)
        else:
            words = (other1, other2, w)
        header = b"".join(x.to_bytes(2, "big") for x in words)
        r = check_converse(ctx, header, w)
        n += 1
        nt += sum(1 for x in words if x) >= 2
        if r:
            ctx.fail(r[0], r[1], {"header": header.hex(), "data_k": w}, bucket=r[0])
        if n <= 1:
            ctx.sample(f"converse-word{word}", {"header": header.hex()})
    ctx.count(n)
    ctx.nontrivial_distinct(nt)
    ctx.cls(f"converse: word {word} enumerated", n)
    ctx.domain(f"converse header word {word} values", n)


def check_reject(ctx, case):
    """case: {'fields': [...], 'data_len': n} with at least one thing out of range."""
    packets = _lib()
    kwargs = dict(zip(NAMES, case["fields"]))
    data = b"\x00" * case["data_len"]
    try:
        pkt = packets.create_ccsds_packet(data, **kwargs)
    except ValueError:
        return None
    except Exception as e:
        return "reject-wrong-exception:" + type(e).__name__, f"{kwargs} len={len(data)} raised {e!r} instead of ValueError"
    return "reject-constructed", f"{kwargs} len={len(data)} constructed {bytes(pkt)[:8].hex()}"


def part_reject(ctx):
    n = 0
    good = (3, 1, 0, 1000, 2, 9000)
    bads = []
    for i, mx in enumerate(MAXES):
        for bad in (-1, mx + 1, 2 ** 40, -2 ** 40, mx + 2, -(mx + 1)):
            f = list(good)
            f[i] = bad
            bads.append({"fields": f, "data_len": 5})
            f2 = [0] * 6
            f2[i] = bad
            bads.append({"fields": f2, "data_len": 1})
            f3 = list(MAXES)
            f3[i] = bad
            bads.append({"fields": f3, "data_len": 65536})
    for ln in (0, 65537, 65538, 70000):
        bads.append({"fields": list(good), "data_len": ln})
        bads.append({"fields": [0] * 6, "data_len": ln})
    for case in bads:
        r = check_reject(ctx, case)
        n += 1
        ctx.sample("rejection", case) if n <= 3 else None
        if r:
            ctx.fail(r[0], r[1], case, bucket=r[0])
    ctx.count(n)
    ctx.nontrivial_distinct(n)
    ctx.cls("rejection cases", n)


@st.composite
def gen_case(draw):
    fields = [draw(st.one_of(st.sampled_from(_bvals(m)), st.integers(0, m))) for m in MAXES]
    ln = draw(st.one_of(st.sampled_from([1, 2, 255, 256, 257, 4095, 4096, 65535, 65536]),
                        st.integers(1, 300), st.integers(1, 65536)))
    if ln <= 64:
        data = draw(st.binary(min_size=ln, max_size=ln))
        return {"fields": fields, "data": data.hex(), "data_len": ln, "data_k": None}
    return {"fields": fields, "data": None, "data_len": ln, "data_k": draw(st.integers(0, 255))}


def check_generated(ctx, case):
    if case.get("header") is not None:
        ctx.count()
        r = check_converse(ctx, bytes.fromhex(case["header"]), case.get("data_k") or 0)
        if r:
            ctx.fail(r[0], r[1], case, bucket=r[0])
        return
    fields = tuple(case["fields"])
    if case.get("data") is not None:
        data = bytes.fromhex(case["data"])
    else:
        data = _data(case["data_len"], case.get("data_k") or 0)
    ctx.count()
    if any(not (0 <= f <= m) for f, m in zip(fields, MAXES)) or not (1 <= len(data) <= 65536):
        r = check_reject(ctx, {"fields": list(fields), "data_len": len(data)})
    else:
        r = check_construct(ctx, fields, data)
        if nontrivial_fields(fields, data):
            ctx.nontrivial((fields, len(data), data[:32].hex()))
        ctx.cls("generated: data_len " + ("<=64" if len(data) <= 64 else "<=4096" if len(data) <= 4096 else ">4096"))
        ctx.sample("generated", _case(fields, data))
    if r:
        ctx.fail(r[0], r[1], case, bucket=r[0])


def part_generated(ctx, examples):
    hyp_run(ctx, gen_case(), check_generated, examples)


PARTS = {"word1": part_word1, "word2": part_word2, "lengths": part_lengths, "boundary": part_boundary,
         "converse": part_converse, "reject": part_reject, "generated": part_generated}
REPLAY = {k: check_generated for k in PARTS}
REPLAY["reject"] = lambda ctx, case: (ctx.count(), (lambda r: r and ctx.fail(r[0], r[1], case, bucket=r[0]))(
    check_reject(ctx, case)))
KNOWN = {}


def plan(tier, seed):
    tasks = [("reject", {})]
    for i in range(8):
        tasks.append(("word1", {"lo": i * 8192, "hi": (i + 1) * 8192}))
        tasks.append(("word2", {"lo": i * 8192, "hi": (i + 1) * 8192}))
    if tier == "thorough":
        for i in range(16):
            tasks.append(("lengths", {"lengths": list(range(1 + i, 65537, 16))}))
        for i in range(16):
            tasks.append(("boundary", {"index": i, "of": 16}))
        for word in (0, 1):
            for i in range(4):
                tasks.append(("converse", {"word": word, "lo": i * 16384, "hi": (i + 1) * 16384}))
        for i in range(16):
            tasks.append(("converse", {"word": 2, "lo": i * 4096, "hi": (i + 1) * 4096}))
        for _ in range(16):
            tasks.append(("generated", {"examples": 60000}))
    else:
        lens = sorted({1, 2, 255, 256, 257, 65535, 65536} | set(range(1 + seed % 256, 65537, 256)))
        tasks.append(("lengths", {"lengths": lens}))
        for i in range(16):
            tasks.append(("boundary", {"index": i, "of": 16}))
        for word in (0, 1):
            for i in range(4):
                tasks.append(("converse", {"word": word, "lo": i * 16384, "hi": (i + 1) * 16384}))
        for i in range(8):
            tasks.append(("converse", {"word": 2, "lo": i * 8192, "hi": (i + 1) * 8192,
                                       "stride": 16, "offset": seed % 16}))
        for _ in range(16):
            tasks.append(("generated", {"examples": 500}))
    return tasks
