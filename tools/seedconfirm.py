#!/venv/bin/python
"""Confirm a seeded change produced by a sub-agent and record it under /verif/seeded/<name>/.

  tools/seedconfirm.py <PROP> <k> [--checks C01,C05] [--note "..."] [--needs "..."]

Takes /tmp/seed/<PROP>/patch<k>.diff and demo<k>.py, and in a scratch copy of /repo (outside /repo and /verif):
  1. demo on the unpatched tree must exit 0;
  2. the patch must apply; the repository's whole test suite must still pass with it;
  3. demo with the patch must exit non-zero.
Then runs the quick check of PROP (and of --checks) with VERIF_REPO=<patched scratch copy> and records which ones
report a VIOLATION. Everything is written to seeded/<PROP>_<k>/{patch.diff, demo.py, meta.json}; the scratch copy
is removed.
"""
import argparse
import json
import os
import shutil
import subprocess
import sys
import tempfile

VERIF = os.path.dirname(os.path.dirname(os.path.abspath(__file__)))
PY = "/venv/bin/python"


def run(cmd, cwd, env=None, timeout=3000):
    e = dict(os.environ)
    e.update(env or {})
    r = subprocess.run(cmd, cwd=cwd, env=e, capture_output=True, text=True, timeout=timeout)
    return r.returncode, (r.stdout + r.stderr)


def main():
    ap = argparse.ArgumentParser()
    ap.add_argument("prop")
    ap.add_argument("k")
    ap.add_argument("--src", default=None)
    ap.add_argument("--checks", default="")
    ap.add_argument("--note", default="")
    ap.add_argument("--needs", default="")
    ap.add_argument("--tier", default="quick")
    ap.add_argument("--skip-suite", action="store_true")
    ap.add_argument("--name", default=None, help="directory name under seeded/ (default <PROP>_<k>)")
    a = ap.parse_args()
    src = a.src or f"/tmp/seed/{a.prop}"
    patch = os.path.join(src, f"patch{a.k}.diff")
    demo = os.path.join(src, f"demo{a.k}.py")
    assert os.path.exists(patch) and os.path.exists(demo), (patch, demo)
    scratch = tempfile.mkdtemp(prefix="spp_seed_")
    ran = []
    try:
        # scratch copy of the working tree of /repo (tracked files only)
        subprocess.run(f"git -C /repo archive HEAD | tar -x -C {scratch}", shell=True, check=True)
        shutil.copy(demo, os.path.join(scratch, "demo.py"))
        env = {"PYTHONPATH": scratch, "PYTHONDONTWRITEBYTECODE": "1"}
        rc0, out0 = run([PY, "demo.py"], scratch, env)
        ran.append(f"demo on the unchanged tree: exit {rc0}")
        rc, out = run(["git", "apply", "--whitespace=nowarn", patch], scratch) if os.path.isdir(os.path.join(scratch, ".git")) \
            else run(["patch", "-p1", "-s", "-i", patch], scratch)
        ran.append(f"apply patch: exit {rc} {out.strip()[:200]}")
        if rc != 0:
            print("\n".join(ran))
            return 1
        rc1, out1 = run([PY, "demo.py"], scratch, env)
        ran.append(f"demo with the change: exit {rc1}: {out1.strip().splitlines()[-1][:300] if out1.strip() else ''}")
        suite = "skipped"
        if not a.skip_suite:
            rcs, outs = run([PY, "-m", "pytest", "-q", "-p", "no:cacheprovider", "--timeout=900", "tests"], scratch, env)
            tail = [l for l in outs.splitlines() if " passed" in l or " failed" in l or " error" in l]
            suite = f"exit {rcs}: {tail[-1].strip() if tail else outs[-200:]}"
            ran.append(f"test suite with the change: {suite}")
        confirmed = rc0 == 0 and rc1 != 0 and (a.skip_suite or rcs == 0)
        detected = {}
        checks = [a.prop] + [c for c in a.checks.split(",") if c and c != a.prop]
        for c in checks:
            rcc, outc = run([os.path.join(VERIF, "check.py"), c, "--tier", a.tier], VERIF,
                            {"VERIF_REPO": scratch, "VERIF_NO_EVIDENCE": "1"})
            first = next((l.strip() for l in outc.splitlines() if l.strip().startswith("kind=")), "")
            detected[c] = {"exit": rcc, "first": first[:400]}
            ran.append(f"./check.py {c} --tier {a.tier} with VERIF_REPO=<patched copy>: exit {rcc} {first[:160]}")
        name = a.name or f"{a.prop}_{a.k}"
        dest = os.path.join(VERIF, "seeded", name)
        os.makedirs(dest, exist_ok=True)
        shutil.copy(patch, os.path.join(dest, "patch.diff"))
        shutil.copy(demo, os.path.join(dest, "demo.py"))
        meta = {"property": a.prop, "origin": "independent sub-agent given only the property text and a scratch worktree",
                "confirmed": confirmed, "what_it_breaks": a.note, "needs_to_manifest": a.needs,
                "what_was_run": ran, "detected_by": [c for c, d in detected.items() if d["exit"] == 1],
                "missed_by": [c for c, d in detected.items() if d["exit"] == 0],
                "harness_error": [c for c, d in detected.items() if d["exit"] not in (0, 1)],
                "tier": a.tier, "detections": detected}
        with open(os.path.join(dest, "meta.json"), "w") as f:
            json.dump(meta, f, indent=1)
        print("\n".join(ran))
        print("CONFIRMED" if confirmed else "NOT-CONFIRMED", "detected_by", meta["detected_by"], "missed_by", meta["missed_by"])
        return 0
    finally:
        shutil.rmtree(scratch, ignore_errors=True)


if __name__ == "__main__":
    sys.exit(main())
