"""C02 – stream framing is exact and independent of source kind and chunking."""
import io
import os
import socket
import tempfile
import threading
from itertools import islice

from hypothesis import strategies as st

from vf import pk
from vf.runner import exc_sig, hyp_run

PROPERTY = "C02"
LEVEL = "exploration"
RULE = ("Hypothesis generates packet sequences (0..40 packets; data lengths from {1,2,5,6,7,255,256,4089..4097,65535,"
        "65536} + small + uniform 1..65536 within a size budget; arbitrary header words and data) each preceded by k in "
        "0..16 arbitrary prefix bytes (often looking like headers). Every sequence is framed from: a bytes object, "
        "io.BytesIO, a real file (BufferedReader), gzip / bz2 / lzma file objects (BufferedIOBase whose fileno() "
        "belongs to another byte stream), a file object returning short non-empty reads, a scripted socket "
        "delivering a drawn fragmentation (cut points biased to fall inside headers, on packet boundaries and one byte "
        "either side), and (thorough) a real socketpair fed by a writer thread; read sizes from {default, 1, 2, 3, 5, 6, "
        "7, 8, 4095, 4096, 4097, > total}; progress display off and on; through ccsds_generator and packet_generator(ccsds_headers_only=True). "
        "Fixed big cases: 330 x 65536-byte packets (21.6 MB, beyond the 20 MB buffer-trim threshold) and (thorough) 3M "
        "7-byte packets, via bytes / BytesIO / scripted socket. Oracle: the first len(packets) items are byte-identical "
        "to the packets, in order; for bytes and file sources the next next() raises StopIteration; a socket is only "
        "asked for len(packets) items and must not need bytes beyond the stream. Non-trivial: >= 2 packets and one of "
        "{a chunk boundary strictly inside a header, a chunk boundary exactly on a packet boundary, k > 0, read size "
        "smaller than some packet, a 65536-byte data field, total > 20 MB}.")
ASSUMPTIONS = ["a socket.socket subclass overriding recv is an admissible socket; recv never returns more than asked",
               "end-of-stream behaviour of sockets is C10's subject, not claimed here"]
EXHAUSTIVE = {"quick": False, "thorough": False}

KINDS = ("bytes", "bytesio", "file", "short", "socket", "gzip", "bz2", "lzma")
SIZES = (None, 1, 2, 3, 5, 6, 7, 8, 4095, 4096, 4097, 10 ** 8)
_tmp = None


def tmpdir():
    global _tmp
    if _tmp is None:
        _tmp = tempfile.mkdtemp(prefix="vf_c02_")
        import atexit
        import shutil
        atexit.register(shutil.rmtree, _tmp, True)
    return _tmp


def pattern(fill, n):
    base = bytes([fill & 0xFF, (fill ^ 0xFF) & 0xFF, (fill * 7 + 1) & 0xFF, 0x00, 0xC0, (fill + 3) & 0xFF, 0xFF])
    return (base * (n // len(base) + 1))[:n]


def build(case):
    """(stream, [packet bytes], [start offset of each packet's header])"""
    out = bytearray()
    pkts, starts = [], []
    for p in case["packets"]:
        data = bytes.fromhex(p["data"]) if "data" in p else pattern(p["fill"], p["len"])
        pkt = bytes.fromhex(p["hdr"]) + (len(data) - 1).to_bytes(2, "big") + data
        out += bytes.fromhex(p["pre"])
        starts.append(len(out))
        out += pkt
        pkts.append(pkt)
    return bytes(out), pkts, starts


def frame(stream, n, k, kind, rs, route, sched, real_chunks=None, progress=False):
    """returns (items, verdict-or-None) where items are the first n yielded byte strings"""
    import contextlib
    import warnings
    from space_packet_parser import packets
    kwargs = {"skip_header_bytes": k}
    if progress:
        kwargs["show_progress"] = True
    if rs is not None:
        kwargs["buffer_read_size_bytes"] = rs
    fh = path = sock = thread = None
    try:
        if kind == "bytes":
            src = stream
        elif kind == "bytesio":
            src = io.BytesIO(stream)
        elif kind == "file":
            fd, path = tempfile.mkstemp(dir=tmpdir())
            with os.fdopen(fd, "wb") as f:
                f.write(stream)
            fh = open(path, "rb")
            src = fh
        elif kind in ("gzip", "bz2", "lzma"):
            # compressed file objects are binary file objects too (io.BufferedIOBase); their fileno() belongs to
            # the compressed stream, their seek/read to the packet stream
            import bz2
            import gzip
            import lzma
            mod = {"gzip": gzip, "bz2": bz2, "lzma": lzma}[kind]
            fd, path = tempfile.mkstemp(dir=tmpdir())
            os.close(fd)
            with mod.open(path, "wb") as f:
                f.write(stream)
            fh = mod.open(path, "rb")
            src = fh
        elif kind == "short":
            src = pk.ShortReader(stream, list(sched), max_empty=len(stream) // 7 + 8)
        elif kind == "socket":
            src = sock = pk.ScriptedSocket(stream, list(sched), end=False)
        elif kind == "realsocket":
            a, b = socket.socketpair()
            b.settimeout(20)
            sock = b

            def writer():
                off = 0
                try:
                    for c in real_chunks:
                        a.sendall(stream[off:off + c])
                        off += c
                    a.sendall(stream[off:])
                except OSError:
                    pass   # the reader got its packets and closed its end while the tail was still being sent
            thread = threading.Thread(target=writer, daemon=True)
            thread.start()
            src = b
            sock_a = a
        else:
            raise ValueError(kind)
        with warnings.catch_warnings(), contextlib.redirect_stdout(io.StringIO()):
            warnings.simplefilter("ignore")
            if route == "ccsds":
                gen = packets.ccsds_generator(src, **kwargs)
            else:
                gen = pk.header_only_definition().packet_generator(src, ccsds_headers_only=True, **kwargs)
            try:
                if kind in ("socket", "realsocket"):
                    items = [bytes(x) for x in islice(gen, n)]
                    ended = True
                else:
                    raw, ended = pk.bounded(gen, len(stream), extra=2)
                    items = [bytes(x) for x in raw]
            except socket.timeout:
                if kind == "realsocket":   # a loaded machine, not a property violation: inconclusive
                    return None, ("inconclusive", "real socket read timed out")
                raise
            except pk.ScriptedSocket.Exhausted:
                return None, ("socket-overread", "the framer asked the socket for bytes beyond the stream before "
                                                 "yielding all packets")
            except pk.NonTermination as e:
                return None, ("no-termination", str(e))
            except Exception as e:  # noqa: BLE001
                return None, ("raised:" + exc_sig(e), f"raised {e!r}")
            finally:
                gen.close()
        if not ended:
            return items, ("no-termination", f"more than {len(stream) // 7 + 4} items")
        return items, None
    finally:
        if fh:
            fh.close()
        if path:
            os.unlink(path)
        if sock is not None:
            sock.close()
        if thread is not None:
            thread.join(timeout=20)
            sock_a.close()


def compare(items, pkts, kind):
    if kind in ("socket", "realsocket"):
        if len(items) != len(pkts):
            return "count", f"{len(items)} items for {len(pkts)} packets"
    elif len(items) != len(pkts):
        return "count", (f"{len(items)} items for {len(pkts)} packets (lengths yielded {[len(i) for i in items[:8]]}, "
                         f"expected {[len(p) for p in pkts[:8]]})")
    for i, (a, b) in enumerate(zip(items, pkts)):
        if a != b:
            return "bytes-differ", (f"item {i}: {len(a)} bytes {a[:16].hex()}.., expected {len(b)} bytes "
                                    f"{b[:16].hex()}..")
    return None


def chunk_bounds(kind, rs, sched, total):
    if kind in ("bytes",):
        return set()
    if kind in ("bytesio", "file"):
        if rs is None or rs >= total:
            return set()
        return set(range(rs, total, rs)) if total // rs < 100000 else {rs}
    out, off = set(), 0
    for c in sched:
        step = c if rs is None else min(c, rs)
        if kind == "socket" and rs is None:
            step = min(c, 4096)
        off += max(1, step)
        if off >= total:
            break
        out.add(off)
    return out


def classify(ctx, case, stream, pkts, starts, kind, rs, sched):
    k = case["k"]
    tags = set()
    if len(pkts) >= 2:
        cb = chunk_bounds(kind, rs, sched, len(stream))
        if any(s < b < s + 6 for s in starts for b in cb if abs(b - s) < 7):
            tags.add("chunk boundary inside a header")
        ends = {s + len(p) for s, p in zip(starts, pkts)}
        if cb & ends:
            tags.add("chunk boundary on a packet boundary")
        if k:
            tags.add("prefix bytes")
        if rs is not None and any(rs < len(p) for p in pkts):
            tags.add("read size smaller than a packet")
        if any(len(p) == 65542 for p in pkts):
            tags.add("65536-byte data field")
        if len(stream) > 20_000_000:
            tags.add("beyond 20 MB")
    for t in tags:
        ctx.cls(t)
    return tags


def check_one(ctx, case, stream, pkts, starts, kind, rs, route, sched, real_chunks=None, progress=False):
    ctx.count()
    ctx.cls(f"kind {kind}")
    if progress:
        ctx.cls("show_progress=True")
    tags = classify(ctx, case, stream, pkts, starts, kind, rs, sched)
    if tags:
        ctx.cls("nontrivial")
        ctx.nontrivial((case["packets"] if len(stream) < 100000 else len(stream), case["k"], kind, rs, route,
                        list(sched)[:50]))
    items, verdict = frame(stream, len(pkts), case["k"], kind, rs, route, sched, real_chunks, progress)
    if verdict is None:
        verdict = compare(items, pkts, kind)
    if verdict and verdict[0] == "inconclusive":
        ctx.note("a real-socket case timed out (inconclusive, not counted as a violation)")
        return True
    if verdict:
        only = {"kind": kind, "rs": rs, "route": route, "sched": list(sched), "progress": progress}
        ctx.fail(verdict[0], f"{kind} source, read size {rs}, k={case['k']}, route {route}, show_progress={progress}, {len(pkts)} packets, "
                             f"{len(stream)} bytes: {verdict[1]}", dict(case, only=only),
                 bucket=f"{verdict[0]}|{kind}")
        return False
    return True


def biased_schedule(case, stream, starts, pkts):
    """turn the drawn 'cut codes' into chunk sizes whose boundaries fall near packet boundaries"""
    targets = []
    for code in case["cutcodes"]:
        i = code[0] % max(1, len(starts))
        if not starts:
            break
        base = starts[i] + (len(pkts[i]) if code[1] >= 7 else 0)
        targets.append(base + [0, 1, 2, 3, 5, 6, -1, 0, 1, -1][code[1] % 10])
    targets = sorted({t for t in targets if 0 < t < len(stream)})
    sched, off = [], 0
    for t in targets:
        sched.append(t - off)
        off = t
    return sched + list(case["sched"])


def check_case(ctx, case):
    stream, pkts, starts = build(case)
    ctx.sample("sequence", dict(case, packets=case["packets"][:4]))
    only = case.get("only")
    if only:
        return check_one(ctx, case, stream, pkts, starts, only["kind"], only["rs"], only["route"], only["sched"],
                         only["sched"] if only["kind"] == "realsocket" else None, only.get("progress", False))
    sched = biased_schedule(case, stream, starts, pkts)
    budget = 200000
    for ki, kind in enumerate(case.get("kinds", KINDS)):
        for j, rs in enumerate(case["rs"]):
            if rs is not None and len(stream) // rs > budget:
                rs = None
            route = "ccsds" if (ki + j) % 3 else "pgen"
            sc = sched if kind == "socket" else case["sched"]
            if kind in ("gzip", "bz2", "lzma") and (j or len(stream) > 100000):
                continue   # compression is slow: once per case, small streams only
            if not check_one(ctx, case, stream, pkts, starts, kind, rs, route, sc,
                             progress=bool(case.get("progress")) and (ki + j) % 2 == 0):
                return
    if case.get("real"):
        chunks = [max(1, c) for c in sched]
        check_one(ctx, case, stream, pkts, starts, "realsocket", case["rs"][0], "ccsds", chunks, chunks)


LENS = [1, 2, 5, 6, 7, 255, 256, 4089, 4090, 4091, 4095, 4096, 4097, 65535, 65536]


@st.composite
def gen_case(draw, real=False):
    k = draw(st.one_of(st.just(0), st.integers(0, 16), st.sampled_from([4, 6, 7])))
    n = draw(st.one_of(st.integers(0, 6), st.integers(0, 40)))
    pkts = []
    total = 0
    for _ in range(n):
        ln = draw(st.one_of(st.integers(1, 9), st.sampled_from(LENS), st.integers(1, 40), st.integers(1, 65536)))
        if total + ln > 300000:
            ln = draw(st.integers(1, 9))
        total += ln + 6 + k
        pre = draw(st.one_of(st.binary(min_size=k, max_size=k), st.just(b"\x00" * k), st.just((b"\x08\x01\xc0\x00\x00\x00" * 3)[:k])))
        p = {"pre": pre.hex(),
             "hdr": draw(st.one_of(st.binary(min_size=4, max_size=4), st.just(b"\x00\x00\x00\x00"),
                                   st.just(b"\xff\xff\xff\xff"))).hex()}
        if ln <= 64:
            p["data"] = draw(st.one_of(st.binary(min_size=ln, max_size=ln), st.just(b"\x00" * ln))).hex()
        else:
            p["len"], p["fill"] = ln, draw(st.integers(0, 255))
        pkts.append(p)
    rs = draw(st.lists(st.sampled_from(SIZES), min_size=1, max_size=2, unique=True))
    sched = draw(st.lists(st.one_of(st.integers(1, 9), st.integers(1, 70000)), max_size=30))
    cutcodes = draw(st.lists(st.tuples(st.integers(0, 40), st.integers(0, 13)), max_size=12))
    return {"k": k, "packets": pkts, "rs": rs, "sched": sched, "cutcodes": [list(c) for c in cutcodes], "real": real,
            "progress": draw(st.integers(0, 3)) == 0}


def part_generated(ctx, examples, real=False):
    hyp_run(ctx, gen_case(real), check_case, examples)


def part_big(ctx, which, kind, skip=0):
    """beyond the 20 MB trim threshold, with data after the trim point; `skip` record-header bytes before each packet"""
    if which == "330x65536":
        pkts = [pk.mkpacket(i % 2048, pattern(i, 65536), seqcount=i) for i in range(330)]
    else:
        pkts = [pk.mkpacket(i % 2048, bytes([i & 0xFF]), seqcount=i % 16384) for i in range(3_000_000)]
    stream = b"".join(bytes([0xEE, i & 0xFF, 0x08, 0x00, 0xFF][:skip]) + p for i, p in enumerate(pkts)) if skip \
        else b"".join(pkts)
    starts = []
    ctx.domain(f"big stream {which} via {kind}" + (f", {skip} prefix bytes per packet" if skip else ""), len(pkts))
    case = {"k": skip, "packets": [], "big": which}
    rec = 65542 + skip
    for route in (("ccsds",) if which != "330x65536" else ("ccsds", "pgen")):
        if kind == "bytes":
            variants = [("bytes", None, [])]
        elif kind == "bytesio" and skip:
            # reads that end exactly on a record boundary, inside the next record's prefix, just after it
            variants = [("bytesio", rec, []), ("bytesio", rec + 2, []), ("bytesio", rec + skip, []), ("bytesio", 4096, [])]
        elif kind == "socket" and skip:
            variants = [("socket", rec, [rec] * 400), ("socket", None, [4096, 1, 70000, 6, 7])]
        elif kind == "bytesio":
            # 65542 = exactly one packet per read: the buffer is exactly consumed when the trim happens
            variants = [("bytesio", None, []), ("bytesio", 100000, []), ("bytesio", 4096, []), ("bytesio", 65542, []),
                        ("bytesio", 2 * 65542, [])]
        else:
            variants = [("socket", None, [4096, 1, 70000, 6, 7])]
            if ctx.tier != "quick":
                variants.append(("socket", 65542, [65542] * 310 + [3, 3, 65536]))
        for kd, rs, sched in variants:
            ctx.count()
            ctx.cls("beyond 20 MB")
            ctx.cls("nontrivial")
            ctx.nontrivial_distinct()
            ctx.sample("big", {"which": which, "kind": kd, "rs": rs, "route": route, "bytes": len(stream)})
            items, verdict = frame(stream, len(pkts), skip, kd, rs, route, sched)
            if verdict is None:
                verdict = compare(items, pkts, kd)
            if verdict:
                ctx.fail(verdict[0], f"big stream {which} ({len(stream)} bytes, skip_header_bytes={skip}) via {kd}, read size {rs}, route "
                                     f"{route}: {verdict[1]}", dict(case, only={"kind": kd, "rs": rs, "route": route,
                                                                                "sched": sched}),
                         bucket=f"{verdict[0]}|big|{kd}")
    del starts


def replay(ctx, case):
    if case.get("big"):
        return part_big(ctx, case["big"], case["only"]["kind"] if case["only"]["kind"] != "socket" else "socket",
                        case.get("k", 0))
    return check_case(ctx, case)


PARTS = {"generated": part_generated, "big": part_big}
REPLAY = {"generated": replay, "big": replay}
KNOWN = {}
FLOORS = {"nontrivial": ("", 0.2), "chunk boundary inside a header": ("kind socket", 0.1),
          "chunk boundary on a packet boundary": ("kind socket", 0.1)}


def plan(tier, seed):
    tasks = [("big", {"which": "330x65536", "kind": k}) for k in ("bytes", "bytesio", "socket")]
    tasks += [("big", {"which": "330x65536", "kind": k, "skip": 5}) for k in ("bytesio", "socket")]
    if tier == "quick":
        for _ in range(13):
            tasks.append(("generated", {"examples": 60}))
    else:
        tasks += [("big", {"which": "3Mx7", "kind": k}) for k in ("bytes", "bytesio", "socket")]
        for i in range(26):
            tasks.append(("generated", {"examples": 1000, "real": i % 4 == 0}))
    return tasks
