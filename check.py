#!/venv/bin/python
"""Single entry point: ./check.py <ID> [--tier quick|thorough] [--replay FILE]"""
import argparse
import os
import sys

VERIF = os.path.dirname(os.path.abspath(__file__))
os.environ.setdefault("PYTHONDONTWRITEBYTECODE", "1")
sys.dont_write_bytecode = True
REPO = os.environ.get("VERIF_REPO", "/repo")
if os.environ.get("PYTHONHASHSEED") != "0":
    os.environ["PYTHONHASHSEED"] = "0"
    os.execv(sys.executable, [sys.executable] + sys.argv)
deps = os.path.join(VERIF, ".deps")
sys.path[0:0] = [REPO, VERIF]
if os.path.isdir(deps):
    sys.path.append(deps)
os.environ.setdefault("SPP_VERIF", "1")


def main():
    ap = argparse.ArgumentParser()
    ap.add_argument("prop")
    ap.add_argument("--tier", default=os.environ.get("VERIF_TIER", "quick"), choices=["quick", "thorough"])
    ap.add_argument("--replay", default=None)
    args = ap.parse_args()
    os.chdir(VERIF)
    try:
        import space_packet_parser
        if not os.path.abspath(space_packet_parser.__file__).startswith(os.path.abspath(REPO) + os.sep):
            print(f"HARNESS-ERROR space_packet_parser imported from {space_packet_parser.__file__}, not {REPO}")
            return 2
        import hypothesis  # noqa: F401
        from vf import runner
    except Exception as e:  # import failure is a harness error, never a violation
        import traceback
        traceback.print_exc()
        print(f"HARNESS-ERROR import failed: {e}")
        return 2
    import logging
    liblog = logging.getLogger("space_packet_parser")  # the library's log output is not part of any verdict
    liblog.addHandler(logging.NullHandler())
    liblog.propagate = False
    modname = f"vf.{args.prop.lower()}"
    try:
        seed = int(os.environ.get("VERIF_SEED", "1"))
    except ValueError:
        seed = 1
    try:
        if args.replay:
            return runner.run_replay(modname, args.replay)
        return runner.run_property(modname, args.tier, seed)
    except Exception as e:
        import traceback
        traceback.print_exc()
        print(f"HARNESS-ERROR {type(e).__name__}: {e}")
        return 2


if __name__ == "__main__":
    sys.exit(main())
