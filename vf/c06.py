"""C06 – match criteria evaluate to the mathematical truth of their comparisons."""
from itertools import product

from hypothesis import strategies as st
from lxml import etree

from vf import crit
from vf.runner import exc_sig, hyp_run

PROPERTY = "C06"
LEVEL = "exploration"
RULE = ("Unit level, objects built by constructor and by from_xml of an own XML rendering. Exhaustive part 1: every "
        "accepted operator spelling (16) x selector (calibrated/raw) x operand kinds {int, negative int, float, bool, "
        "enum label, text, calibrated float over int raw} x boundary values {-2,-1,0,1,2,2^40,0.0,-0.0,0.5,1.0,-1.5,1e300,"
        "False,True,'','A','B'} for Comparison, one-parameter Condition, and two-parameter Condition over all operand "
        "pairs incl. int-vs-float. Exhaustive part 2: every ANDed/ORed tree shape with <= 4 (thorough: 5) leaves, leaf i "
        "being P_i == 1 over P_i in {0,1}, x all 2^k assignments; comparison lists of length 0..4 x all assignments; "
        "discrete-lookup lists of length 1..4 x all match patterns observed through BinaryDataEncoding/StringDataEncoding "
        "length selection. Generated part (Hypothesis): random trees of depth <= 4 over mixed-kind parameters, random "
        "spellings/selectors, both construction routes; and ONE criteria object evaluated over a sequence of 2..5 assignments "
        "in which a parameter's value changes between int and (calibrated) float, so that nothing may be remembered "
        "from an earlier evaluation. Oracle: own evaluator over plain Python values (vf/crit.py); the "
        "result must be the bool True/False. Non-trivial: some operand falsy, or mixed int/float, or tree depth >= 2; "
        "distinct by hash of (criteria, assignment).")
ASSUMPTIONS = ["a literal is spelled in the type of the value it is compared with (decimal int, float repr, text; 0/1 "
               "for booleans); raw byte buffers are never referenced by criteria",
               "an empty <Value/> literal in a Condition is not generated through XML (lxml yields None text)"]
EXHAUSTIVE = {"quick": False, "thorough": False}


def E(tag, attrib):
    return etree.Element(tag, attrib)


def mkval(spec):
    from space_packet_parser import common
    k = spec["k"]
    if k == "int":
        return common.IntParameter(spec["v"], spec.get("raw"))
    if k == "float":
        raw = spec.get("raw")
        if isinstance(raw, str):
            raw = float(raw)
        return common.FloatParameter(float(spec["v"]), raw)
    if k == "bool":
        return common.BoolParameter(bool(spec["v"]), spec.get("raw"))
    if k == "enum":
        return common.StrParameter(spec["v"], spec["raw"])
    if k == "str":
        return common.StrParameter(spec["v"], bytes.fromhex(spec["raw"]))
    raise ValueError(k)


def plainvals(spec):
    """(value, raw) as plain Python objects"""
    k = spec["k"]
    if k == "int":
        v = spec["v"]
        return v, (spec["raw"] if spec.get("raw") is not None else v)
    if k == "float":
        v = float(spec["v"])
        raw = spec.get("raw")
        if raw is None:
            raw = v
        elif isinstance(raw, str):
            raw = float(raw)
        return v, raw
    if k == "bool":
        v = bool(spec["v"])
        return v, (spec["raw"] if spec.get("raw") is not None else v)
    if k == "enum":
        return spec["v"], spec["raw"]
    return spec["v"], bytes.fromhex(spec["raw"])


def mkpacket(assign):
    from space_packet_parser import packets
    pkt = packets.CCSDSPacket(raw_data=b"\x00" * 8)
    for name, spec in assign.items():
        pkt[name] = mkval(spec)
    return pkt


def refvalues(assign):
    return {n: plainvals(s) for n, s in assign.items()}


def lib_object(kind, model, route):
    from space_packet_parser.xtce import comparisons
    if route == "ctor":
        return {"cmp": crit.build_cmp, "cond": crit.build_cond, "bexpr": crit.build_bexpr}[kind](model)
    # "xml0": the xs:boolean value false spelled "0"; "xmlo": defaults omitted
    ropts = {"entity_ops": True, "false_as_0": route == "xml0", "omit_defaults": route == "xmlo"}
    if kind == "cmp":
        el = crit.render_cmp(E, model, ropts)
        return comparisons.Comparison.from_xml(etree.fromstring(etree.tostring(el)))
    if kind == "cond":
        el = crit.render_cond(E, model, ropts)
        return comparisons.Condition.from_xml(etree.fromstring(etree.tostring(el)))
    el = crit.render_bexpr(E, model, ropts)
    return comparisons.BooleanExpression.from_xml(etree.fromstring(etree.tostring(el)))


def check_eval(kind, model, assign, route, current=None):
    """Returns None, ('skip', why) or (kind, detail)."""
    values = refvalues(assign)
    try:
        if kind == "cmp":
            exp = crit.ref_cmp(model, values, current)
        elif kind == "cond":
            exp = crit.ref_cond(model, values)
        else:
            exp = crit.ref_bexpr(model, values)
    except (crit.RefError, TypeError) as e:
        return ("skip", str(e))
    try:
        obj = lib_object(kind, model, route)
    except Exception as e:
        return "construct-raised:" + exc_sig(e), f"{kind} {model} via {route}: construction raised {e!r}"
    pkt = mkpacket(assign)
    try:
        import warnings
        with warnings.catch_warnings():
            warnings.simplefilter("ignore")
            got = obj.evaluate(pkt, current) if kind == "cmp" else obj.evaluate(pkt)
    except Exception as e:
        return "evaluate-raised:" + exc_sig(e), (f"{kind} {model} via {route} on {assign} (current={current}): raised "
                                                 f"{e!r}; mathematical truth is {exp}")
    if got is not True and got is not False:
        return f"not-a-bool:{kind}", f"{kind} {model} via {route} on {assign}: returned {got!r}; truth is {exp}"
    if got != exp:
        return f"wrong-truth:{kind}", f"{kind} {model} via {route} on {assign}: returned {got}; truth is {exp}"
    return None


def is_falsy_operand(assign):
    for s in assign.values():
        v, raw = plainvals(s)
        if not v or not raw:
            return True
    return False


def mixed_numeric(assign):
    kinds = set()
    for s in assign.values():
        v, raw = plainvals(s)
        kinds.add(type(v).__name__)
        kinds.add(type(raw).__name__)
    return "int" in kinds and "float" in kinds


def depth(e):
    if e["t"] == "cond":
        return 0
    return 1 + max([depth(s) for s in e["subs"]] + [0])


# ------------------------------------------------------------------------------------------------
# exhaustive part 1: relations

# (with the integers next to 2**53, 2**63, 2**64 that no double represents, and the doubles next to them)
INTS = [-2, -1, 0, 1, 2, 2 ** 40, 2 ** 53, 2 ** 53 + 1, -(2 ** 53) - 1, 2 ** 63 - 1, 2 ** 64 - 1]
FLOATS = ["0.0", "-0.0", "0.5", "1.0", "-1.5", "1e+300", "2.0", "9007199254740992.0", "-9007199254740992.0",
          "9.223372036854776e+18", "1.8446744073709552e+19"]
OPERANDS = (
    [{"k": "int", "v": v} for v in INTS]
    + [{"k": "float", "v": f} for f in FLOATS]
    + [{"k": "float", "v": "0.0", "raw": 3}, {"k": "float", "v": "2.5", "raw": 0}, {"k": "float", "v": "-1.0", "raw": 2},
       {"k": "float", "v": "1.0", "raw": "0.0"}]
    + [{"k": "bool", "v": False, "raw": 0}, {"k": "bool", "v": True, "raw": 1}, {"k": "bool", "v": True, "raw": 5}]
    + [{"k": "enum", "v": "A", "raw": 0}, {"k": "enum", "v": "", "raw": 1}, {"k": "enum", "v": "B", "raw": 2}]
    + [{"k": "str", "v": "", "raw": ""}, {"k": "str", "v": "A", "raw": "41"}, {"k": "str", "v": "B", "raw": "4200"}]
)


def literals_for(v):
    if isinstance(v, bool):
        return ["0", "1"]
    if isinstance(v, int):
        return [str(i) for i in INTS]
    if isinstance(v, float):
        return FLOATS + ["1", "-2"]
    if isinstance(v, str):
        return ["", "A", "B"]
    return []


def part_relations(ctx, index, of):
    i = 0
    for spec in OPERANDS:
        val, raw = plainvals(spec)
        for cal in (True, False):
            sel = val if cal else raw
            for lit in literals_for(sel):
                for op in crit.SPELLINGS:
                    i += 1
                    if i % of != index:
                        continue
                    assign = {"P": spec}
                    for kind, model in (
                            ("cmp", {"ref": "P", "op": op, "value": lit, "cal": cal}),
                            ("cond", {"left": "P", "lcal": cal, "op": op, "right": None, "rcal": False, "value": lit})):
                        for route in ("ctor", "xml", "xml0", "xmlo"):
                            if kind == "cond" and route != "ctor" and lit == "":
                                continue
                            ctx.count()
                            ctx.cls(f"relations: {kind}")
                            r = check_eval(kind, model, assign, route)
                            case = {"kind": kind, "model": model, "assign": assign, "route": route}
                            if is_falsy_operand(assign):
                                ctx.nontrivial(case)
                                ctx.cls("relations: falsy operand")
                            if r and r[0] == "skip":
                                ctx.cls("relations: skipped (no reference truth)")
                            elif r:
                                ctx.fail(r[0], r[1], case, bucket=r[0])
                            if i % 997 == 0:
                                ctx.sample("relations", case)
    # own raw value (the context-calibrator idiom): parameter not in the packet, current value given
    for cur in (0, 1, -3, 7, 0.0, 2.5):
        for lit in (["0", "1", "-3", "7"] if isinstance(cur, int) else ["0.0", "2.5", "1"]):
            for op in crit.SPELLINGS:
                i += 1
                if i % of != index:
                    continue
                model = {"ref": "SELF", "op": op, "value": lit, "cal": False}
                for route in ("ctor", "xml"):
                    ctx.count()
                    ctx.cls("relations: own raw value")
                    r = check_eval("cmp", model, {"Q": {"k": "int", "v": 9}}, route, current=cur)
                    case = {"kind": "cmp", "model": model, "assign": {"Q": {"k": "int", "v": 9}}, "route": route,
                            "current": cur}
                    if not cur:
                        ctx.nontrivial(case)
                    if r and r[0] != "skip":
                        ctx.fail(r[0], r[1], case, bucket=r[0])


def part_pairs(ctx, index, of):
    """two-parameter Condition over all operand pairs of comparable kinds"""
    i = 0
    numeric = [s for s in OPERANDS if s["k"] in ("int", "float", "bool")]
    texts = [s for s in OPERANDS if s["k"] in ("enum", "str")]
    for group in (numeric, texts):
        for a, b in product(group, group):
            for lcal, rcal in product((True, False), (True, False)):
                la = plainvals(a)[0 if lcal else 1]
                rb = plainvals(b)[0 if rcal else 1]
                if isinstance(la, (bytes, str)) != isinstance(rb, (bytes, str)) or type(la) is bytes or type(rb) is bytes:
                    continue
                if isinstance(la, str) != isinstance(rb, str):
                    continue
                for op in crit.SPELLINGS:
                    i += 1
                    if i % of != index:
                        continue
                    model = {"left": "A", "lcal": lcal, "op": op, "right": "B", "rcal": rcal, "value": None}
                    assign = {"A": a, "B": b}
                    route = "ctor" if i % 2 else "xml"
                    ctx.count()
                    ctx.cls("pairs: two-parameter condition")
                    r = check_eval("cond", model, assign, route)
                    case = {"kind": "cond", "model": model, "assign": assign, "route": route}
                    if is_falsy_operand(assign) or mixed_numeric(assign):
                        ctx.nontrivial(case)
                    if isinstance(la, float) != isinstance(rb, float):
                        ctx.cls("pairs: int-vs-float")
                    if r and r[0] == "skip":
                        ctx.cls("pairs: skipped")
                    elif r:
                        ctx.fail(r[0], r[1], case, bucket=r[0])
                    if i % 4999 == 0:
                        ctx.sample("pairs", case)


# ------------------------------------------------------------------------------------------------
# exhaustive part 2: structure


def _compositions(n, parts):
    """ordered ways to write n as a sum of `parts` positive integers"""
    if parts == 0:
        if n == 0:
            yield ()
        return
    for first in range(1, n - parts + 2):
        for rest in _compositions(n - first, parts - 1):
            yield (first,) + rest


def shapes(kind, leaves, depth_left):
    """all group shapes of `kind` with exactly `leaves` leaves: (kind, n_direct_conds, [sub shapes])"""
    other = "or" if kind == "and" else "and"
    for direct in range(leaves, -1, -1):
        rest = leaves - direct
        if rest == 0:
            yield (kind, direct, [])
            continue
        if depth_left <= 1:
            continue
        for nsubs in range(1, rest + 1):
            for comp in _compositions(rest, nsubs):
                for subs in product(*[list(shapes(other, k, depth_left - 1)) for k in comp]):
                    yield (kind, direct, list(subs))


def shape_to_expr(shape, counter):
    kind, direct, subs = shape
    conds = []
    for _ in range(direct):
        i = counter[0]
        counter[0] += 1
        conds.append({"left": f"P{i}", "lcal": True, "op": "==", "right": None, "rcal": False, "value": "1"})
    return {"t": kind, "conds": conds, "subs": [shape_to_expr(s, counter) for s in subs]}


def part_structure(ctx, max_leaves, index, of):
    n_shapes = 0
    i = 0
    for leaves in range(1, max_leaves + 1):
        for top in ("and", "or"):
            for shape in shapes(top, leaves, 4):
                i += 1
                if i % of != index:
                    continue
                n_shapes += 1
                expr = shape_to_expr(shape, [0])
                d = depth(expr)
                for bits in product((0, 1), repeat=leaves):
                    assign = {f"P{j}": {"k": "int", "v": b} for j, b in enumerate(bits)}
                    route = "ctor" if (i + sum(bits)) % 2 else "xml"
                    ctx.count()
                    r = check_eval("bexpr", expr, assign, route)
                    case = {"kind": "bexpr", "model": expr, "assign": assign, "route": route}
                    ctx.nontrivial_distinct(1)  # every row has a falsy operand or is the all-ones row of a distinct shape
                    if r and r[0] != "skip":
                        ctx.fail(r[0], r[1], case, bucket=r[0])
                ctx.cls(f"structure: shapes with {leaves} leaves, depth {d}")
                if n_shapes % 37 == 1:
                    ctx.sample("structure", {"expr": expr, "assignments": f"all 2^{leaves}"})
    ctx.domain(f"AND/OR tree shapes <= {max_leaves} leaves x all assignments (shapes)", n_shapes)
    # single-condition expressions
    if index == 0:
        for b in (0, 1):
            expr = {"t": "cond", "cond": {"left": "P0", "lcal": True, "op": "==", "right": None, "rcal": False,
                                          "value": "1"}}
            for route in ("ctor", "xml"):
                ctx.count()
                r = check_eval("bexpr", expr, {"P0": {"k": "int", "v": b}}, route)
                if r and r[0] != "skip":
                    ctx.fail(r[0], r[1], {"kind": "bexpr", "model": expr, "assign": {"P0": {"k": "int", "v": b}},
                                          "route": route}, bucket=r[0])


def check_list(ctx, case):
    """comparison list as a conjunction (the consumers' idiom all(c.evaluate(...)))"""
    cmps, assign = case["cmps"], case["assign"]
    values = refvalues(assign)
    try:
        exp = all([crit.ref_cmp(c, values) for c in cmps])
    except crit.RefError:
        return
    objs = [lib_object("cmp", c, case["route"]) for c in cmps]
    pkt = mkpacket(assign)
    try:
        results = [o.evaluate(pkt) for o in objs]
    except Exception as e:
        ctx.fail("evaluate-raised:" + exc_sig(e), f"comparison list {cmps} on {assign}: raised {e!r}; truth is {exp}",
                 case, bucket="evaluate-raised:" + exc_sig(e))
        return
    if any(r is not True and r is not False for r in results):
        ctx.fail("not-a-bool:list", f"comparison list {cmps} on {assign}: element results {results}", case,
                 bucket="not-a-bool:cmp")
        return
    if all(results) != exp:
        ctx.fail("wrong-truth:list", f"comparison list {cmps} on {assign}: {results}; truth is {exp}", case,
                 bucket="wrong-truth:list")


def part_lists(ctx):
    for n in range(0, 5):
        for bits in product((0, 1), repeat=n):
            for want in product((0, 1), repeat=n):
                cmps = [{"ref": f"P{j}", "op": "==", "value": str(w), "cal": bool((j + n) % 2)} for j, w in enumerate(want)]
                assign = {f"P{j}": {"k": "int", "v": b} for j, b in enumerate(bits)}
                for route in ("ctor", "xml"):
                    case = {"cmps": cmps, "assign": assign, "route": route}
                    ctx.count()
                    ctx.cls("lists: comparison list")
                    ctx.nontrivial_distinct(1 if n else 0)
                    check_list(ctx, case)
    ctx.sample("lists", {"cmps": "P_j == w_j for all w in {0,1}^n", "n": "0..4", "assignments": "all"})


def check_lookup(ctx, case):
    """discrete lookup list: value of the first entry whose criteria all hold"""
    from space_packet_parser import packets
    from space_packet_parser.xtce import comparisons, encodings
    entries, assign = case["entries"], case["assign"]
    values = refvalues(assign)
    exp = None
    try:
        for ent in entries:
            if all([crit.ref_cmp(c, values) for c in ent["cmps"]]):
                exp = ent["value"]
                break
    except crit.RefError:
        return
    pkt = mkpacket(assign)
    lookups = [comparisons.DiscreteLookup([crit.build_cmp(c) for c in ent["cmps"]], ent["value"]) for ent in entries]
    # unit level: each DiscreteLookup alone
    for ent, lk in zip(entries, lookups):
        try:
            got = lk.evaluate(pkt)
        except Exception as e:
            ctx.fail("lookup-raised:" + exc_sig(e), f"lookup {ent} on {assign}: raised {e!r}", case,
                     bucket="lookup-raised:" + exc_sig(e))
            return
        holds = all([crit.ref_cmp(c, values) for c in ent["cmps"]])
        if (holds and (got is None or got != ent["value"])) or (not holds and got is not None):
            ctx.fail("lookup-value", f"lookup {ent} on {assign}: returned {got!r}, criteria hold = {holds}", case,
                     bucket="lookup-value")
            return
    # consumer level: which length is used
    for which in ("binary", "string"):
        pkt = packets.CCSDSPacket(raw_data=b"\xAA" * 64)
        for name, spec in assign.items():
            pkt[name] = mkval(spec)
        if which == "binary":
            enc = encodings.BinaryDataEncoding(size_discrete_lookup_list=lookups)
        else:
            enc = encodings.StringDataEncoding(encoding="ISO-8859-1", discrete_lookup_length=lookups)
        try:
            v = enc.parse_value(pkt)
            got_bits = pkt.raw_data.pos
        except Exception as e:
            if exp is None:
                continue  # no entry matches: failing is the documented behaviour
            ctx.fail(f"lookup-consumer-raised:{which}:" + exc_sig(e),
                     f"{which} length lookup {entries} on {assign}: raised {e!r}; expected length {exp}", case,
                     bucket=f"lookup-consumer-raised:{which}:" + exc_sig(e))
            continue
        if exp is None:
            ctx.fail(f"lookup-consumer-nomatch:{which}", f"{which} length lookup {entries} on {assign}: no entry "
                     f"matches but {got_bits} bits were read", case, bucket=f"lookup-consumer-nomatch:{which}")
        elif got_bits != exp:
            ctx.fail(f"lookup-consumer-length:{which}", f"{which} length lookup {entries} on {assign}: read {got_bits} "
                     f"bits, first matching entry says {exp}", case, bucket=f"lookup-consumer-length:{which}")


def part_lookups(ctx):
    for n in range(1, 5):
        for bits in product((0, 1), repeat=2):
            for pattern in product(range(4), repeat=n):
                # entry j matches when (P0, P1) == pattern_j decoded
                entries = []
                for j, pat in enumerate(pattern):
                    entries.append({"cmps": [{"ref": "P0", "op": "==", "value": str(pat >> 1), "cal": True},
                                             {"ref": "P1", "op": "==", "value": str(pat & 1), "cal": False}],
                                    "value": 8 * (j + 1)})
                assign = {"P0": {"k": "int", "v": bits[0]}, "P1": {"k": "int", "v": bits[1]}}
                case = {"entries": entries, "assign": assign}
                ctx.count()
                ctx.cls("lookups: discrete lookup list")
                ctx.nontrivial_distinct(1)
                check_lookup(ctx, case)
    ctx.sample("lookups", {"entries": "n=1..4 entries keyed on (P0,P1)", "assignments": "all 4", "patterns": "all 4^n"})


# ------------------------------------------------------------------------------------------------
# generated part

NAMES = ["A", "B", "C", "D", "E"]


@st.composite
def gen_spec(draw):
    k = draw(st.sampled_from(["int", "int", "float", "cfloat", "bool", "enum", "str"]))
    if k == "int":
        return {"k": "int", "v": draw(st.one_of(st.sampled_from(INTS), st.integers(-5, 5), st.integers(-2 ** 70, 2 ** 70)))}
    if k == "float":
        return {"k": "float", "v": repr(draw(st.one_of(st.sampled_from([float(f) for f in FLOATS]),
                                                       st.floats(allow_nan=False, allow_infinity=False, width=64))))}
    if k == "cfloat":
        return {"k": "float", "v": repr(draw(st.sampled_from([0.0, 1.0, 2.5, -1.0, 100.0]))),
                "raw": draw(st.integers(-3, 3))}
    if k == "bool":
        raw = draw(st.sampled_from([0, 1, 2]))
        return {"k": "bool", "v": bool(raw), "raw": raw}
    if k == "enum":
        return {"k": "enum", "v": draw(st.sampled_from(["", "A", "B", "ON", "OFF", " ON", "ON ", "ON  "])),
                "raw": draw(st.integers(0, 3))}
    txt = draw(st.sampled_from(["", "A", "B", "abc", "é", "A ", " A", "A  B", "ON  "]))
    return {"k": "str", "v": txt, "raw": txt.encode("utf-8").hex()}


def _literal_strategy(v):
    if isinstance(v, bool):
        return st.sampled_from(["0", "1"])
    if isinstance(v, int):
        return st.one_of(st.just(str(v)), st.sampled_from([str(i) for i in INTS]), st.integers(-5, 5).map(str))
    if isinstance(v, float):
        return st.one_of(st.just(repr(v)), st.sampled_from(FLOATS), st.integers(-3, 3).map(str))
    return st.one_of(st.just(v), st.sampled_from(["", "A", "B", "ON", " ON", "ON ", "ON  ", "A ", " A"]))


@st.composite
def gen_cond(draw, assign):
    names = sorted(assign)
    left = draw(st.sampled_from(names))
    lcal = draw(st.booleans())
    lv = plainvals(assign[left])[0 if lcal else 1]
    if isinstance(lv, bytes):
        lcal, lv = True, plainvals(assign[left])[0]
    op = draw(st.sampled_from(sorted(crit.SPELLINGS)))
    if draw(st.booleans()):
        # two-parameter condition with a comparable right operand
        cands = []
        for n in names:
            for rc in (True, False):
                rv = plainvals(assign[n])[0 if rc else 1]
                if isinstance(rv, bytes):
                    continue
                if isinstance(rv, str) == isinstance(lv, str):
                    cands.append((n, rc))
        if cands:
            right, rcal = draw(st.sampled_from(cands))
            return {"left": left, "lcal": lcal, "op": op, "right": right, "rcal": rcal, "value": None}
    lit = draw(_literal_strategy(lv))
    return {"left": left, "lcal": lcal, "op": op, "right": None, "rcal": False, "value": lit}


@st.composite
def gen_group(draw, assign, kind, depth_left, pool=None):
    """`pool`: the conditions of the expression so far - a later condition may be the twin of an earlier one that
    differs only in a raw/calibrated selector (or only in the operator), anywhere in the expression"""
    pool = [] if pool is None else pool
    nconds = draw(st.integers(0, 3))
    nsubs = draw(st.integers(0, 2)) if depth_left > 1 else 0
    if nconds + nsubs == 0:
        nconds = 1
    other = "or" if kind == "and" else "and"
    conds = []
    for _ in range(nconds):
        if pool and draw(st.integers(0, 3)) == 0:
            c = dict(draw(st.sampled_from(pool)))
            which = draw(st.sampled_from(["lcal", "lcal", "rcal", "op"]))
            if which == "rcal" and c["right"] is None:
                which = "lcal"
            if which == "op":
                c["op"] = draw(st.sampled_from(sorted(crit.SPELLINGS)))
            else:
                c[which] = not c[which]
        else:
            c = draw(gen_cond(assign))
        pool.append(c)
        conds.append(c)
    return {"t": kind, "conds": conds,
            "subs": [draw(gen_group(assign, other, depth_left - 1, pool)) for _ in range(nsubs)]}


@st.composite
def gen_case(draw):
    n = draw(st.integers(1, 4))
    assign = {NAMES[i]: draw(gen_spec()) for i in range(n)}
    route = draw(st.sampled_from(["ctor", "xml", "xml0", "xmlo"]))
    kind = draw(st.sampled_from(["cmp", "cond", "bexpr", "bexpr", "bexpr"]))
    if kind == "cmp":
        ref = draw(st.sampled_from(sorted(assign)))
        cal = draw(st.booleans())
        v = plainvals(assign[ref])[0 if cal else 1]
        if isinstance(v, bytes):
            cal, v = True, plainvals(assign[ref])[0]
        model = {"ref": ref, "op": draw(st.sampled_from(sorted(crit.SPELLINGS))), "value": draw(_literal_strategy(v)),
                 "cal": cal}
    elif kind == "cond":
        model = draw(gen_cond(assign))
    else:
        top = draw(st.sampled_from(["cond", "and", "or"]))
        if top == "cond":
            model = {"t": "cond", "cond": draw(gen_cond(assign))}
        else:
            model = draw(gen_group(assign, top, 4))
    return {"kind": kind, "model": model, "assign": assign, "route": route}


def _has_empty_value(kind, model):
    if kind == "cond":
        return model["right"] is None and model["value"] == ""
    if kind == "bexpr":
        conds = [model["cond"]] if model["t"] == "cond" else model["conds"]
        if any(c["right"] is None and c["value"] == "" for c in conds):
            return True
        return any(_has_empty_value("bexpr", s) for s in model.get("subs", []))
    return False


def check_generated(ctx, case):
    if "entries" in case:
        ctx.count()
        return check_lookup(ctx, case)
    if "cmps" in case:
        ctx.count()
        return check_list(ctx, case)
    kind, model, assign, route = case["kind"], case["model"], case["assign"], case["route"]
    if route != "ctor" and _has_empty_value(kind, model):
        route = "ctor"
    ctx.count()
    r = check_eval(kind, model, assign, route, case.get("current"))
    d = depth(model) if kind == "bexpr" else 0
    ctx.cls(f"generated: {kind} depth {d}")
    if is_falsy_operand(assign) or mixed_numeric(assign) or d >= 2:
        ctx.nontrivial(case)
    ctx.sample(f"generated: {kind} depth {d}", case)
    if r and r[0] == "skip":
        ctx.cls("generated: skipped (no reference truth)")
    elif r:
        ctx.fail(r[0], r[1], case, bucket=r[0])


def part_generated(ctx, examples):
    hyp_run(ctx, gen_case(), check_generated, examples)


# ---- one criteria object evaluated over a sequence of assignments (evaluation must be a pure function of the
# assignment: nothing may be remembered from an earlier evaluation, e.g. a literal coerced to the type seen first)

def _num_spec(draw):
    x = draw(st.integers(-3, 6))
    if draw(st.booleans()):
        return {"k": "int", "v": x}
    return {"k": "float", "v": repr(float(draw(st.sampled_from([x, x, x + 0.5, 2 * x])))), "raw": x}


@st.composite
def gen_seq_case(draw):
    names = NAMES[:draw(st.integers(1, 3))]
    ops = sorted(crit.SPELLINGS)

    def cond():
        left = draw(st.sampled_from(names))
        if draw(st.integers(0, 3)) == 0 and len(names) > 1:
            return {"left": left, "lcal": draw(st.booleans()), "op": draw(st.sampled_from(ops)),
                    "right": draw(st.sampled_from(names)), "rcal": draw(st.booleans()), "value": None}
        return {"left": left, "lcal": draw(st.booleans()), "op": draw(st.sampled_from(ops)), "right": None, "rcal": False,
                "value": str(draw(st.integers(-3, 6)))}
    kind = draw(st.sampled_from(["cmp", "cmp", "cond", "bexpr"]))
    if kind == "cmp":
        model = {"ref": draw(st.sampled_from(names)), "op": draw(st.sampled_from(ops)),
                 "value": str(draw(st.integers(-3, 6))), "cal": draw(st.booleans())}
    elif kind == "cond":
        model = cond()
    else:
        t = draw(st.sampled_from(["and", "or"]))
        model = {"t": t, "conds": [cond() for _ in range(draw(st.integers(1, 3)))],
                 "subs": [{"t": "or" if t == "and" else "and", "conds": [cond() for _ in range(draw(st.integers(1, 2)))],
                           "subs": []} for _ in range(draw(st.integers(0, 1)))]}
    assigns = [{n: _num_spec(draw) for n in names} for _ in range(draw(st.integers(2, 5)))]
    return {"kind": kind, "model": model, "assigns": assigns, "route": draw(st.sampled_from(["ctor", "xml", "xml0", "xmlo"]))}


def check_sequence(ctx, case):
    kind, model, route = case["kind"], case["model"], case["route"]
    ctx.count()
    ctx.cls(f"sequence: {kind}")
    ctx.sample(f"sequence: {kind}", case)
    try:
        obj = lib_object(kind, model, route)
    except Exception as e:
        return ctx.fail("construct-raised:" + exc_sig(e), f"{kind} {model} via {route}: construction raised {e!r}", case)
    kinds_seen = set()
    for i, assign in enumerate(case["assigns"]):
        values = refvalues(assign)
        kinds_seen |= {(n, s["k"]) for n, s in assign.items()}
        try:
            exp = crit.ref_cmp(model, values) if kind == "cmp" else crit.ref_cond(model, values) if kind == "cond" \
                else crit.ref_bexpr(model, values)
        except (crit.RefError, TypeError):
            ctx.cls("sequence: skipped evaluation (no reference truth)")
            continue
        try:
            import warnings
            with warnings.catch_warnings():
                warnings.simplefilter("ignore")
                got = obj.evaluate(mkpacket(assign))
        except Exception as e:
            return ctx.fail("evaluate-raised:" + exc_sig(e), f"{kind} {model} via {route}, evaluation {i} on {assign} after "
                                                             f"{case['assigns'][:i]}: raised {e!r}; truth is {exp}", case)
        if got is not True and got is not False or got != exp:
            return ctx.fail(f"sequence-wrong:{kind}", f"{kind} {model} via {route}: evaluation {i} on {assign} returned "
                                                      f"{got!r}, truth is {exp}; earlier evaluations of the same object: "
                                                      f"{case['assigns'][:i]}", case)
    if len({k for _, k in kinds_seen}) > 1:
        ctx.nontrivial(case)
        ctx.cls("sequence: a parameter's value changes type between evaluations")
    return None


def part_sequence(ctx, examples):
    hyp_run(ctx, gen_seq_case(), check_sequence, examples)


PARTS = {"relations": part_relations, "pairs": part_pairs, "structure": part_structure, "lists": part_lists,
         "lookups": part_lookups, "generated": part_generated, "sequence": part_sequence}
REPLAY = {k: check_generated for k in PARTS}
REPLAY["sequence"] = check_sequence


# ------------------------------------------------------------------------------------------------
# signatures of known findings (none open: D2 and D3 are repaired in /repo)
KNOWN = {}


def plan(tier, seed):
    tasks = [("lists", {}), ("lookups", {})]
    for i in range(4):
        tasks.append(("relations", {"index": i, "of": 4}))
    for i in range(4):
        tasks.append(("pairs", {"index": i, "of": 4}))
    if tier == "quick":
        for i in range(4):
            tasks.append(("structure", {"max_leaves": 4, "index": i, "of": 4}))
        for _ in range(12):
            tasks.append(("generated", {"examples": 400}))
        for _ in range(4):
            tasks.append(("sequence", {"examples": 400}))
    else:
        for i in range(16):
            tasks.append(("structure", {"max_leaves": 5, "index": i, "of": 16}))
        for _ in range(16):
            tasks.append(("generated", {"examples": 25000}))
        for _ in range(16):
            tasks.append(("sequence", {"examples": 10000}))
    return tasks
