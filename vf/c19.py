"""C19 – CLI listings show each packet once, in order, and never hang or crash."""
import os
import shutil
import tempfile

os.environ.setdefault("COLUMNS", "220")

from hypothesis import strategies as st  # noqa: E402

from vf import pk  # noqa: E402
from vf.runner import exc_sig, hyp_run  # noqa: E402

PROPERTY = "C19"
LEVEL = "exploration"
RULE = ("For every n = 0..14 (beyond the elision threshold of 10) a file of n packets with Hypothesis-generated, "
        "mostly distinct header values and data (some files hold byte-identical re-transmissions, interleaved APIDs "
        "and unordered sequence counts) is listed with `spp [-v|-q|--log-level L] describe-packets` through the `spp` "
        "group (click CliRunner, in-process, so that the rich logging handler of the entry point is installed); "
        "for `spp parse --packet i` a generated definition (header + a 32-bit marker + 0..2 further fields) is used "
        "and EVERY index 0..n+1 is requested; also `parse` without an index, and files with a truncated tail "
        "(every cut of the last packet in the thorough tier). Oracle: exit code 0 and no exception; n = 0 -> the 'No "
        "packets found' line; n <= 10 -> the table rows equal the seven header values of every packet, once, in order; "
        "n > 10 -> first five, one all-'...' row, last five; parse --packet i shows the marker of packet i and of no "
        "other packet for i < n and the out-of-range message otherwise. Termination is decided by wrapping the framer "
        "with a counting cap (more than bytes/7+2 packets from a finite file is a verdict, not a timeout). "
        "Non-trivial: n < 10 or n > 10 or index in {n-1, n, n+1}; distinct by (n, index, header set).")
ASSUMPTIONS = ["output is read through click's CliRunner with COLUMNS=220 so that rich does not wrap or elide cells",
               "negative --packet values are not part of the claim (indices 0..n+1)"]
EXHAUSTIVE = {"quick": False, "thorough": False}

XTCE_HEAD = """<?xml version='1.0' encoding='UTF-8'?>
<xtce:SpaceSystem name="C19" xmlns:xtce="http://www.omg.org/spec/XTCE/20180204">
<xtce:Header date="2024-01-01T00:00:00" version="1.0" validationStatus="Working"/>
<xtce:TelemetryMetaData>
<xtce:ParameterTypeSet>
"""


def xtce_text(extra_fields):
    """header-only root plus MARK (32 bits) and extra unsigned fields [(name, bits)]"""
    fields = list(zip(pk.HEADER_NAMES, pk.HEADER_WIDTHS)) + [("MARK", 32)] + list(extra_fields)
    s = XTCE_HEAD
    for name, bits in fields:
        s += (f'<xtce:IntegerParameterType name="{name}_Type"><xtce:UnitSet/>'
              f'<xtce:IntegerDataEncoding sizeInBits="{bits}" encoding="unsigned"/></xtce:IntegerParameterType>\n')
    s += "</xtce:ParameterTypeSet>\n<xtce:ParameterSet>\n"
    for name, _ in fields:
        s += f'<xtce:Parameter name="{name}" parameterTypeRef="{name}_Type"/>\n'
    s += ('</xtce:ParameterSet>\n<xtce:ContainerSet>\n<xtce:SequenceContainer name="CCSDSPacket">\n'
          '<xtce:EntryList>\n')
    for name, _ in fields:
        s += f'<xtce:ParameterRefEntry parameterRef="{name}"/>\n'
    s += ("</xtce:EntryList>\n</xtce:SequenceContainer>\n</xtce:ContainerSet>\n</xtce:TelemetryMetaData>\n"
          "</xtce:SpaceSystem>\n")
    return s


class Capped:
    """wraps the framer used by the CLI with the counting cap of the termination guard"""

    def __init__(self):
        self.tripped = False

    def install(self, cap):
        import space_packet_parser.cli as cli
        import space_packet_parser.packets as packets
        self.cli, self.packets = cli, packets
        self.orig_cli, self.orig_pk = cli.ccsds_generator, packets.ccsds_generator
        outer = self

        def make(orig):
            def capped(*a, **kw):
                n = 0
                for item in orig(*a, **kw):
                    n += 1
                    if n > cap:
                        outer.tripped = True
                        raise pk.NonTermination(f"more than {cap} packets framed from the file")
                    yield item
            return capped
        cli.ccsds_generator = make(self.orig_cli)
        packets.ccsds_generator = make(self.orig_pk)

    def remove(self):
        self.cli.ccsds_generator = self.orig_cli
        self.packets.ccsds_generator = self.orig_pk


def invoke(cmd_name, args, file_size, global_opts=()):
    """run `spp [global options] <command> args` in-process, the way the entry point does (the group installs the
    rich logging handler), with the library's log records reaching that handler"""
    import logging
    from click.testing import CliRunner
    import space_packet_parser.cli as cli
    cap = Capped()
    cap.install(file_size // 7 + 2)
    liblog = logging.getLogger("space_packet_parser")
    old_prop, old_level = liblog.propagate, logging.root.level
    liblog.propagate = True
    try:
        res = CliRunner().invoke(cli.spp, list(global_opts) + [cmd_name.replace("_", "-")] + args,
                                 env={"COLUMNS": "220"})
    finally:
        cap.remove()
        liblog.propagate = old_prop
        for h in logging.root.handlers[:]:
            logging.root.removeHandler(h)
        logging.root.setLevel(old_level)
    return res, cap.tripped


def table_rows(output):
    rows = []
    for line in output.splitlines():
        line = line.strip()
        if line.startswith("│") and line.endswith("│"):
            rows.append([c.strip() for c in line.strip("│").split("│")])
    return rows


def build_packets(case):
    pkts = []
    for i, p in enumerate(case["packets"]):
        body = p["mark"].to_bytes(4, "big")
        for (_, bits), v in zip(case["extra"], p["extra"]):
            body += (v % (1 << bits)).to_bytes(bits // 8, "big")
        body += bytes(p.get("pad", 0))    # data beyond what the definition reads (packets of up to 65536 data bytes)
        pkts.append(pk.mkpacket(p["apid"], body, seqflags=p["sf"], seqcount=p["sc"], version=p["v"], ptype=p["t"],
                                shflag=p["sh"]))
    return pkts


def hv(pkt):
    w = int.from_bytes(pkt[:6], "big")
    bits = f"{w:048b}"
    return [str(int(bits[a:b], 2)) for a, b in ((0, 3), (3, 4), (4, 5), (5, 16), (16, 18), (18, 32))] + \
        [str(len(pkt) - 7)]


def check_listing(ctx, case, workdir):
    pkts = build_packets(case)
    n = len(pkts)
    tail = bytes.fromhex(case.get("tail", ""))
    path = os.path.join(workdir, "packets.bin")
    with open(path, "wb") as f:
        f.write(b"".join(pkts) + tail)
    size = os.path.getsize(path)
    ctx.count()
    ctx.cls(f"describe n={n}" + (" +truncated tail" if tail else ""))
    if any(len(p) > 32768 + 6 for p in pkts):
        ctx.cls("file holds a packet with more than 32768 data bytes")
    if n != 10:
        ctx.nontrivial(("d", case["packets"], case.get("tail", "")))
    gopts = case.get("gopts", [])
    res, tripped = invoke("describe_packets", [path], size, gopts)
    what = f"spp {' '.join(gopts)} describe-packets on {n} packets" + (f" + {len(tail)} trailing bytes" if tail else "")
    if tripped:
        return ctx.fail("no-termination", f"{what}: the framer yields more packets than the file can hold", case)
    if res.exception is not None or res.exit_code != 0:
        return ctx.fail("crash", f"{what}: exit code {res.exit_code}, exception {res.exception!r}", case,
                        bucket="describe-crash:" + (exc_sig(res.exception) if res.exception else "exit"))
    rows = table_rows(res.output)
    if n == 0:
        if "No packets found" not in res.output or rows:
            return ctx.fail("empty-listing", f"{what}: output {res.output!r}", case)
        return None
    exp = [hv(p) for p in pkts]
    if n > 10:
        exp = exp[:5] + [["..."] * 7] + exp[-5:]
    if rows != exp:
        return ctx.fail("listing-rows", f"{what}: rows {rows} expected {exp}", case,
                        bucket="listing-rows:" + ("le10" if n <= 10 else "gt10"))
    return None


def check_parse(ctx, case, workdir):
    pkts = build_packets(case)
    n = len(pkts)
    tail = bytes.fromhex(case.get("tail", ""))
    path = os.path.join(workdir, "packets.bin")
    xpath = os.path.join(workdir, "definition.xml")
    skip = case.get("skip", 0)
    with open(path, "wb") as f:
        # `skip` record-header bytes before every packet, stripped by --skip-header-bytes
        # (a truncated trailing record keeps its record header too: the cut is inside the packet)
        f.write(b"".join(bytes([0x1A, 0xCF, 0xFC, 0x1D, 0, 0, 0, i & 0xFF][:skip]) + p for i, p in enumerate(pkts)) +
                (bytes([0x1A, 0xCF, 0xFC, 0x1D, 0, 0, 0, 0xEE][:skip]) + tail if tail else b""))
    with open(xpath, "w") as f:
        f.write(xtce_text(case["extra"]))
    size = os.path.getsize(path)
    marks = [str(p["mark"]) for p in case["packets"]]
    indices = case.get("indices")
    if indices is None:
        indices = list(range(n + 2)) + [None]
    for i in indices:
        ctx.count()
        ctx.cls("parse index " + ("none" if i is None else "valid" if i < n else "n" if i == n else "n+1"))
        if i is None or i >= n - 1 or n < 10:
            ctx.nontrivial(("p", case["packets"], i))
        args = [path, xpath] + ([] if i is None else ["--packet", str(i)]) + ["--max-items", "100"] + \
            (["--skip-header-bytes", str(skip)] if skip else [])
        if skip:
            ctx.cls("parse with --skip-header-bytes")
        gopts = case.get("gopts", [])
        res, tripped = invoke("parse", args, size, gopts)
        what = f"spp {' '.join(gopts)} parse --packet {i}" + (f" --skip-header-bytes {skip}" if skip else "") + \
            f" on {n} packets" + (f" + {len(tail)} trailing bytes" if tail else "")
        sub = dict(case, indices=[i])
        if tripped:
            return ctx.fail("no-termination", f"{what}: the framer yields more packets than the file can hold", sub)
        if res.exception is not None or res.exit_code != 0:
            return ctx.fail("crash", f"{what}: exit code {res.exit_code}, exception {res.exception!r}", sub,
                            bucket="parse-crash:" + (exc_sig(res.exception) if res.exception else "exit"))
        out = res.output
        present = sorted({m for m in marks if m in out})   # a set: re-transmitted packets share their marker
        if i is None:
            if n <= 100 and present != sorted(set(marks)):
                return ctx.fail("parse-all", f"{what}: markers shown {present}, expected all of {marks}", sub)
        elif i < n:
            if present != [marks[i]]:
                return ctx.fail("parse-index", f"{what}: markers shown {present}, expected only {marks[i]}; output "
                                               f"{out[:300]!r}", sub)
        else:
            if "out of range" not in out or present:
                return ctx.fail("parse-out-of-range", f"{what}: expected the out-of-range message, got {out[:300]!r}",
                                sub)
    return None


def check_case(ctx, case):
    workdir = tempfile.mkdtemp(prefix="vf_c19_")
    try:
        ctx.sample(f"n={len(case['packets'])}", dict(case, packets=case["packets"][:3]))
        if case.get("mode", "both") in ("both", "describe"):
            if check_listing(ctx, case, workdir) is not None and False:
                return
        if case.get("mode", "both") in ("both", "parse"):
            check_parse(ctx, case, workdir)
    finally:
        shutil.rmtree(workdir, ignore_errors=True)


@st.composite
def gen_case(draw, n, with_tail=False):
    extra = []
    for j in range(draw(st.integers(0, 2))):
        extra.append([f"X{j}", draw(st.sampled_from([8, 16, 32]))])
    marks = draw(st.lists(st.integers(1_000_000_000, 4_294_967_295), min_size=n, max_size=n, unique=True))
    pkts = []
    seen = set()
    for i in range(n):
        while True:
            p = {"v": draw(st.integers(0, 7)), "t": draw(st.integers(0, 1)), "sh": draw(st.integers(0, 1)),
                 "apid": draw(st.integers(0, 2047)), "sf": draw(st.integers(0, 3)), "sc": draw(st.integers(0, 16383))}
            key = tuple(p.values())
            if key not in seen:
                seen.add(key)
                break
        p["mark"] = marks[i]
        p["pad"] = draw(st.sampled_from([0] * 14 + [1, 300, 32764, 32765, 50000, 65520]))
        p["extra"] = [draw(st.integers(0, 99)) for _ in extra]   # small values: cannot collide with a marker
        pkts.append(p)
    # re-transmissions: byte-identical copies of earlier packets are packets too
    if n >= 2 and draw(st.integers(0, 2)) == 0:
        for _ in range(draw(st.integers(1, 2))):
            src = draw(st.integers(0, n - 1))
            dst = draw(st.integers(0, n - 1))
            pkts[dst] = dict(pkts[src])
    case = {"packets": pkts, "extra": extra, "skip": draw(st.sampled_from([0, 0, 0, 4, 8, 1, 6])),
            "gopts": draw(st.sampled_from([[], [], ["-v"], ["-q"], ["--log-level", "DEBUG"], ["--log-level", "WARNING"]]))}
    if with_tail:
        full = pk.mkpacket(1, b"\x00" * 9)
        case["tail"] = full[:draw(st.integers(1, len(full) - 1))].hex()
    return case


def part_all_n(ctx, sets, ns, with_tail=False):
    """every n in ns, `sets` generated header sets each (Hypothesis draws the sets; n is enumerated)"""
    for n in ns:
        hyp_run(ctx, gen_case(n, with_tail), check_case, sets, rounds=1)
    ctx.domain("n (packets per file) enumerated" + (" with truncated tail" if with_tail else ""), len(ns))


def part_tails(ctx):
    """every cut of a trailing packet after n = 0, 3, 11 packets"""
    from hypothesis import find  # noqa: F401
    full = pk.mkpacket(9, b"\x01" * 6)
    cnt = 0
    for n in (0, 3, 11):
        pkts = [{"v": 0, "t": 0, "sh": 0, "apid": 10 + i, "sf": 3, "sc": i, "mark": 2_000_000_000 + 7919 * i,
                 "extra": []} for i in range(n)]
        for cut in range(1, len(full)):
            check_case(ctx, {"packets": pkts, "extra": [], "tail": full[:cut].hex()})
            cnt += 1
    ctx.domain("cuts of a trailing packet x n in {0,3,11}", cnt)


def part_big(ctx):
    """one file beyond the framer's 20 MB buffer-trim threshold: 330 packets of the largest size"""
    pkts = [{"v": 0, "t": i % 2, "sh": 0, "apid": (7 * i) % 2048, "sf": 3, "sc": i, "mark": 3_000_000_000 + 104729 * i,
             "extra": [], "pad": 65532} for i in range(330)]
    check_case(ctx, {"packets": pkts, "extra": [], "indices": [0, 5, 305, 306, 307, 329, 330, 331], "gopts": []})
    ctx.domain("file of 330 packets x 65536 data bytes (21.6 MB)", 1)


PARTS = {"all_n": part_all_n, "tails": part_tails, "big": part_big}
REPLAY = {"all_n": check_case, "tails": check_case, "big": lambda ctx, case: part_big(ctx)}
KNOWN = {}


def plan(tier, seed):
    tasks = []
    sets = 12 if tier == "quick" else 1200
    for n in range(0, 15):
        tasks.append(("all_n", {"sets": sets, "ns": [n]}))
    tasks.append(("all_n", {"sets": 2 if tier == "quick" else 40, "ns": [0, 1, 9, 10, 11, 14], "with_tail": True}))
    tasks.append(("tails", {}))
    tasks.append(("big", {}))
    if tier != "quick":
        for n in (15, 20, 21, 22, 37, 100):    # around the default --max-items (20) and well beyond the elision threshold
            tasks.append(("all_n", {"sets": 40, "ns": [n]}))
        tasks.append(("all_n", {"sets": 4, "ns": [250]}))
    return tasks
