#!/bin/sh
# Offline setup: make sure hypothesis (in /venv), jsonschema and atheris (in /verif/.deps) are importable.
set -e
cd "$(dirname "$0")"
PY=/venv/bin/python
WH=/opt/veriftools/wheels
export PIP_NO_INDEX=1 PIP_DISABLE_PIP_VERSION_CHECK=1
mkdir -p .deps evidence
$PY -c "import hypothesis" 2>/dev/null || $PY -m pip install -q --no-index --find-links $WH --target .deps hypothesis
PYTHONPATH=.deps $PY -c "import jsonschema" 2>/dev/null || $PY -m pip install -q --no-index --find-links $WH --target .deps jsonschema || echo "setup: jsonschema unavailable (built-in evidence validation is used)"
PYTHONPATH=.deps $PY -c "import atheris" 2>/dev/null || $PY -m pip install -q --no-index --find-links $WH --target .deps atheris || echo "setup: atheris unavailable (fuzzing supplement is skipped)"
PYTHONPATH=/repo:.:.deps $PY -c "import space_packet_parser, hypothesis; print('setup ok: hypothesis', hypothesis.__version__, 'repo', space_packet_parser.__file__)"
