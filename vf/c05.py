"""C05 – container inheritance selects the unique matching structure, in order."""
from itertools import product

from hypothesis import strategies as st

from vf import c01, crit, refbits, xcheck, xdoc, xgen, xref
from vf.runner import exc_sig, hyp_run

PROPERTY = "C05"
LEVEL = "exploration"
RULE = ("Hypothesis generates container trees (1..12 containers, depth <= 4, fan-out <= 4, random abstract flags, "
        "nested references incl. reuse across branches and nesting in nested containers, restriction criteria of "
        "every supported form on header fields and on user-data fields of intermediate containers, deliberately "
        "overlapping criteria and uncovered values; fields are 1..8-bit integers plus calibrated / enumerated / boolean "
        "ones). Packets: ALL assignments of the fields that restriction criteria read (fields of <= 4 bits: every "
        "value; wider fields: one representative of every interval the compared literals cut the range into, i.e. "
        "L-1, L, L+1 for each literal L, both ends, small raw values and enumeration keys) when the product is <= 65536 "
        "(strided down to 128 per document in the quick tier, 4096 in the thorough tier), other fields from a drawn "
        "filler pattern; otherwise packets synthesised with literal bias. Oracle: the reference container walk (vf/xref.py) gives the ordered "
        "name list (parents before children, nested expanded in place) or Unrecognized(partial); compared against "
        "(a) definition.parse_ccsds_packet(CCSDSPacket(raw_data=p)): keys in order, values, header == first seven "
        "items, user_data == the rest, UnrecognizedPacketTypeError with equal partial_data for abstract dead ends and "
        "ambiguity, normal end for a concrete container without a satisfied child; (b) packet_generator with and "
        "without yield_unrecognized_packet_errors. Non-trivial: the tree has depth >= 2 or a nested reference and the "
        "outcome is a leaf at depth >= 2, an abstract dead end, an ambiguity or a concrete early stop.")
ASSUMPTIONS = ["header parameter names are free (the root must start with the seven CCSDS header fields by position)",
               "restriction criteria reference only parameters decoded earlier on the path (DESIGN.md 2.3)"]
EXHAUSTIVE = {"quick": False, "thorough": False}


def criteria_params(doc):
    refs = []
    for c in doc["containers"]:
        if c.get("match"):
            for n, _ in crit.match_refs(c["match"]):
                if n not in refs:
                    refs.append(n)
    return refs


def enum_packets(doc, model, filler, limit):
    """all assignments of the criteria-read fields (if they total <= 12 bits), as packet bytes"""
    refs = criteria_params(doc)
    lits = {}
    for c in doc["containers"]:
        if c.get("match"):
            for n, lit in crit.match_literals(c["match"]):
                lits.setdefault(n, []).append(lit)
    domains = []
    for n in refs:
        pt = model.ptype(n)
        enc = xdoc.effective_enc(pt)
        if enc["k"] not in ("int",):
            return None
        w = enc["bits"]
        if w <= 4:
            domains.append(list(range(2 ** w)))
            continue
        # wider fields: one representative of every interval the literals cut the range into (L-1, L, L+1 for each
        # literal L, plus both ends); fields seen through a calibrator or as labels: small raw values and enum keys
        vals = {0, 1, 2 ** w - 1, 2 ** (w - 1)}
        plain = pt["kind"] == "int" and not enc.get("dcal") and not enc.get("ccals")
        for lit in lits.get(n, []):
            try:
                v = int(float(lit))
            except ValueError:
                continue
            for x in (v - 1, v, v + 1):
                vals.add(x % 2 ** w)
        if not plain:
            vals |= set(range(min(2 ** w, 13)))
            if pt["kind"] == "enum":
                vals |= {int(k) % 2 ** w for k, _ in pt["enum"]}
        domains.append(sorted(vals))
    total = 1
    for dm in domains:
        total *= len(dm)
    if not refs or total > 65536:
        return None
    fill = format(filler % 2 ** 64, "064b") * 8
    out = []
    step = max(1, -(-total // limit))
    for idx, combo in enumerate(product(*domains)):
        if idx % step:
            continue
        assign = dict(zip(refs, combo))
        pos = [0]

        def chooser(n, info):
            if info["name"] in assign and not info.get("have"):
                return format(assign[info["name"]], f"0{n}b")
            p = pos[0]
            pos[0] = (p + n) % 256
            return (fill[p:] + fill)[:n]
        res = xref.decode(model, b"", chooser=chooser, prefix_bits="")
        out.append(xgen.finish_packet(doc, res.final_bits if len(res.final_bits) >= 48 else res.final_bits + "0" * 48))
        if len(out) >= limit:
            break
    return out


def depth_of(doc, name):
    by = {c["name"]: c for c in doc["containers"]}
    d = 0
    while by[name].get("base"):
        name = by[name]["base"]
        d += 1
    return d


def check_direct(defn, pkt_bytes, ex, **kw):
    """route (a): parse_ccsds_packet on a fresh CCSDSPacket"""
    from space_packet_parser import packets
    from space_packet_parser.exceptions import UnrecognizedPacketTypeError
    pkt = packets.CCSDSPacket(raw_data=pkt_bytes)
    try:
        r = defn.parse_ccsds_packet(pkt, **kw)
    except UnrecognizedPacketTypeError as e:
        if ex.kind != "unrecognized":
            if ex.kind == "either":
                return None
            return "unrecognized-raised", f"UnrecognizedPacketTypeError({str(e)[:80]}) but the reference outcome is {ex.label()}"
        if e.partial_data is None:
            return "partial-data", "UnrecognizedPacketTypeError without partial_data"
        d = xref.compare_items(xcheck.lib_items(e.partial_data), ex.items)
        return ("partial-data", f"({ex.res.reason}) {d}") if d else None
    except Exception as e:  # noqa: BLE001
        if ex.kind in ("raise", "either"):
            return None
        return "raised:" + exc_sig(e), f"parse_ccsds_packet raised {e!r} [{exc_sig(e)}], reference outcome {ex.label()}"
    if ex.kind == "unrecognized":
        return "unrecognized-accepted", (f"packet not defined by the document ({ex.res.reason} at {ex.res.path[-1]}) "
                                         f"but parse_ccsds_packet returned {list(r)}")
    if ex.kind == "raise":
        return "no-exception", f"decoding must fail ({ex.res.reason}) but parse_ccsds_packet returned {dict(r)}"
    if ex.kind == "either":
        return None
    if r is not pkt and not isinstance(r, packets.CCSDSPacket):
        return "return-type", f"parse_ccsds_packet returned {type(r).__name__}"
    d = xref.compare_items(xcheck.lib_items(r), ex.items)
    if d:
        return "items", d
    names = [n for n, _, _ in ex.items]
    if list(r.header) != names[:7] or list(r.user_data) != names[7:]:
        return "views", f"header {list(r.header)} / user_data {list(r.user_data)} vs {names}"
    return None


def check_case(ctx, case):
    doc = case["doc"]
    model = xref.Model(doc)
    ctx.count()
    if case["mode"] == "enum":
        packets = enum_packets(doc, model, case["filler"], case["limit"])
        if packets is None:
            packets = [bytes.fromhex(p) for p in case["packets"]]
            ctx.cls("packets synthesised")
        else:
            ctx.cls("packets enumerated (all assignments of criteria fields)")
            ctx.domain("criteria-field assignments enumerated", len(packets))
    else:
        packets = [bytes.fromhex(p) for p in case["packets"]]
        ctx.cls("packets synthesised")
    if case.get("only_packet") is not None:
        packets = [bytes.fromhex(case["only_packet"])]
    expects = xcheck.expectations(model, packets)
    feats = c01.doc_features(doc)
    deep = "depth>=2" in feats or "nested" in feats
    nontriv = False
    for ex in expects:
        if ex.kind == "yield":
            leaf = ex.res.path[-1]
            d = depth_of(doc, leaf)
            has_children = bool(model.children.get(leaf))
            lab = ("concrete early stop" if has_children else f"leaf at depth {'>=2' if d >= 2 else d}")
            ctx.cls("outcome: " + lab)
            nontriv |= deep and (has_children or d >= 2)
        elif ex.kind == "unrecognized":
            ctx.cls("outcome: " + ex.res.reason)
            nontriv |= deep
        else:
            ctx.cls("outcome: " + ex.label())
        ctx.cls("packets")
    for lab in ("abstract-dead-end", "ambiguous"):
        if any(ex.kind == "unrecognized" and ex.res.reason == lab for ex in expects):
            ctx.cls("doc reaches: " + lab)
    if any(ex.kind == "yield" and model.children.get(ex.res.path[-1]) for ex in expects):
        ctx.cls("doc reaches: concrete early stop")
    if any(ex.kind == "yield" and depth_of(doc, ex.res.path[-1]) >= 2 for ex in expects):
        ctx.cls("doc reaches: leaf at depth >=2")
    if nontriv:
        ctx.nontrivial((doc["containers"], [p.hex() for p in packets[:16]]))
        ctx.cls("nontrivial")
    ctx.sample("tree", {"containers": [(c["name"], c.get("base"), c.get("abstract"), c["entries"][-3:]) for c in
                                       doc["containers"]][:8], "mode": case["mode"], "packets": len(packets)})
    try:
        defn = c01.get_definition(case)
    except Exception as e:
        return ctx.fail("load-raised", f"definition could not be obtained via {case['route']}: {e!r}", case,
                        bucket="load-raised:" + exc_sig(e))
    for p, ex in zip(packets, expects):
        if ex.kind == "precondition":
            continue
        r = check_direct(defn, p, ex)
        if r:
            return ctx.fail(r[0], f"[parse_ccsds_packet, route {case['route']}] packet {p.hex()} ({ex.label()}, path "
                                  f"{ex.res.path}): {r[1]}", dict(case, only_packet=p.hex()), bucket=r[0])
    stream = b"".join(packets)
    for flag in (False, True):
        out, exc, _ = xcheck.run(defn, stream, len(packets), yield_unrecognized_packet_errors=flag)
        r = xcheck.compare_run(expects, out, exc, flag, packets)
        if r:
            return ctx.fail(r[0], f"[packet_generator yield_unrecognized_packet_errors={flag}] {r[1]}", case,
                            bucket="gen:" + r[0])
    # decoding may start at any container that begins with the header: alternative roots given per call
    for alt in alternative_roots(doc):
        m2 = xref.Model(dict(doc, root=alt))
        some = packets[:12]
        ex2 = xcheck.expectations(m2, some)
        ctx.cls("decoded from an alternative root as well")
        for p, ex in zip(some, ex2):
            if ex.kind == "precondition":
                continue
            r = check_direct(defn, p, ex, root_container_name=alt)
            if r:
                return ctx.fail(r[0], f"[parse_ccsds_packet root_container_name={alt!r}, route {case['route']}] packet "
                                      f"{p.hex()} ({ex.label()}, path {ex.res.path}): {r[1]}",
                                dict(case, only_packet=p.hex()), bucket="altroot:" + r[0])
        out, exc, _ = xcheck.run(defn, b"".join(some), len(some), root_container_name=alt)
        r = xcheck.compare_run(ex2, out, exc, False, some)
        if r:
            return ctx.fail(r[0], f"[packet_generator root_container_name={alt!r}] {r[1]}", case,
                            bucket="altroot-gen:" + r[0])
        # ... and the default root is unaffected by what was decoded from the other one
        p0, e0 = packets[0], expects[0]
        if e0.kind != "precondition":
            r = check_direct(defn, p0, e0)
            if r:
                return ctx.fail(r[0], f"[parse_ccsds_packet after decoding from root {alt!r}] packet {p0.hex()}: {r[1]}",
                                dict(case, only_packet=p0.hex()), bucket="after-altroot:" + r[0])
    return None


def alternative_roots(doc):
    return [c["name"] for c in doc["containers"]
            if not c.get("base") and c["name"] != doc["root"] and c["entries"] and c["entries"][0] == ["c", doc["root"]]]


@st.composite
def gen_case(draw, limit):
    doc = draw(xgen.gen_doc("trees"))
    model = xref.Model(doc)
    mode = draw(st.sampled_from(["enum", "enum", "synth"]))
    n = draw(st.integers(4, 24))
    packets = [draw(xgen.gen_packet(doc, mutate=False, model=model)).hex() for _ in range(n)]
    return {"doc": doc, "mode": mode, "filler": draw(st.integers(0, 2 ** 64 - 1)), "limit": limit, "packets": packets,
            "route": draw(st.sampled_from(["xml", "xml", "built"])), "opts": draw(c01.gen_opts())}


def part_generated(ctx, examples, limit):
    hyp_run(ctx, gen_case(limit), check_case, examples, shrink_budget=60 if ctx.tier == "quick" else 600, rounds=2)


PARTS = {"generated": part_generated}
REPLAY = {"generated": check_case}
KNOWN = {}
FLOORS = {"doc reaches: abstract-dead-end": ("", 0.1), "doc reaches: ambiguous": ("", 0.03),
          "doc reaches: concrete early stop": ("", 0.1), "doc reaches: leaf at depth >=2": ("", 0.03),
          "nontrivial": ("", 0.3)}


def plan(tier, seed):
    q = tier == "quick"
    return [("generated", {"examples": 60 if q else 800, "limit": 128 if q else 4096}) for _ in range(16)]
