"""Match-criteria model: build library objects, render XML, and reference evaluation.

Model (plain JSON):
  Cmp   = {"ref", "op", "value": str, "cal": bool}
  Cond  = {"left", "lcal", "op", "right": name|None, "rcal": bool, "value": str|None}
  Bexpr = {"t": "cond", "cond": Cond} | {"t": "and"|"or", "conds": [Cond], "subs": [Bexpr of the other kind]}
  Match = {"form": "cmp", "cmps": [Cmp]} | {"form": "list", "cmps": [Cmp...]} | {"form": "bool", "expr": Bexpr}
"""
import operator

SPELLINGS = {
    "==": "eq", "eq": "eq",
    "!=": "ne", "neq": "ne",
    "&lt;": "lt", "lt": "lt", "<": "lt",
    "&gt;": "gt", "gt": "gt", ">": "gt",
    "&lt;=": "le", "leq": "le", "<=": "le",
    "&gt;=": "ge", "geq": "ge", ">=": "ge",
}
RELATIONS = {"eq": operator.eq, "ne": operator.ne, "lt": operator.lt, "gt": operator.gt, "le": operator.le,
             "ge": operator.ge}
BY_RELATION = {}
for _s, _r in SPELLINGS.items():
    BY_RELATION.setdefault(_r, []).append(_s)


class RefError(Exception):
    """The reference semantics assigns no truth value (e.g. referenced parameter not decoded)."""


# ------------------------------------------------------------------------------------------------
# reference evaluation over plain values.  values: name -> (value, raw)


def plain(v):
    """strip library value classes down to the built-in base type"""
    if isinstance(v, bool):
        return v
    for base in (int, float, str, bytes):
        if isinstance(v, base):
            if type(v).__name__ == "BoolParameter":
                return bool(v)
            return base(v)
    return v


def coerce(literal: str, v):
    if isinstance(v, bool):
        return int(literal)
    if isinstance(v, int):
        return int(literal)
    if isinstance(v, float):
        return float(literal)
    if isinstance(v, str):
        return literal
    raise RefError(f"no literal coercion defined for {type(v)}")


def ref_cmp(c, values, current=None):
    if c["ref"] in values:
        v = values[c["ref"]][0 if c["cal"] else 1]
    elif current is not None:
        v = current
    else:
        raise RefError(f"{c['ref']} not decoded")
    v = plain(v)
    try:
        lit = coerce(c["value"], v)
    except ValueError as e:
        raise RefError(f"literal {c['value']!r} is not in the type of {v!r}") from e
    if isinstance(v, bool):
        v = int(v)
    return RELATIONS[SPELLINGS[c["op"]]](v, lit)


def ref_cond(c, values):
    if c["left"] not in values:
        raise RefError(f"{c['left']} not decoded")
    left = plain(values[c["left"]][0 if c["lcal"] else 1])
    if c["right"] is not None:
        if c["right"] not in values:
            raise RefError(f"{c['right']} not decoded")
        right = plain(values[c["right"]][0 if c["rcal"] else 1])
    else:
        try:
            right = coerce(c["value"], left)
        except ValueError as e:
            raise RefError(f"literal {c['value']!r} is not in the type of {left!r}") from e
    if isinstance(left, bool):
        left = int(left)
    if isinstance(right, bool):
        right = int(right)
    return RELATIONS[SPELLINGS[c["op"]]](left, right)


def ref_bexpr(e, values):
    if e["t"] == "cond":
        return ref_cond(e["cond"], values)
    parts = [ref_cond(c, values) for c in e["conds"]] + [ref_bexpr(s, values) for s in e["subs"]]
    return all(parts) if e["t"] == "and" else any(parts)


def ref_match(m, values, current=None):
    """conjunction of the criteria list the library builds for this match"""
    if m["form"] in ("cmp", "list"):
        return all([ref_cmp(c, values, current) for c in m["cmps"]])
    return ref_bexpr(m["expr"], values)


def match_refs(m):
    """(name, uses_calibrated) pairs referenced by a match"""
    out = []
    if m["form"] in ("cmp", "list"):
        for c in m["cmps"]:
            out.append((c["ref"], c["cal"]))
        return out

    def walk(e):
        conds = [e["cond"]] if e["t"] == "cond" else e["conds"]
        for c in conds:
            out.append((c["left"], c["lcal"]))
            if c["right"] is not None:
                out.append((c["right"], c["rcal"]))
        for s in e.get("subs", []):
            walk(s)
    walk(m["expr"])
    return out


def match_literals(m):
    """(name, literal string) pairs that a match compares a parameter with"""
    out = []
    if m["form"] in ("cmp", "list"):
        return [(c["ref"], c["value"]) for c in m["cmps"]]

    def walk(e):
        conds = [e["cond"]] if e["t"] == "cond" else e["conds"]
        for c in conds:
            if c["right"] is None:
                out.append((c["left"], c["value"]))
        for s in e.get("subs", []):
            walk(s)
    walk(m["expr"])
    return out


# ------------------------------------------------------------------------------------------------
# library objects


def build_cmp(c):
    from space_packet_parser.xtce import comparisons
    return comparisons.Comparison(c["value"], c["ref"], operator=c["op"], use_calibrated_value=c["cal"])


def build_cond(c):
    from space_packet_parser.xtce import comparisons
    if c["right"] is not None:
        return comparisons.Condition(c["left"], c["op"], right_param=c["right"],
                                     left_use_calibrated_value=c["lcal"], right_use_calibrated_value=c["rcal"])
    return comparisons.Condition(c["left"], c["op"], right_value=c["value"],
                                 left_use_calibrated_value=c["lcal"], right_use_calibrated_value=False)


def _build_group(e):
    from space_packet_parser.xtce import comparisons
    conds = [build_cond(c) for c in e["conds"]]
    subs = [_build_group(s) for s in e["subs"]]
    return comparisons.Anded(conds, subs) if e["t"] == "and" else comparisons.Ored(conds, subs)


def build_bexpr(e):
    from space_packet_parser.xtce import comparisons
    if e["t"] == "cond":
        return comparisons.BooleanExpression(build_cond(e["cond"]))
    return comparisons.BooleanExpression(_build_group(e))


def build_match(m):
    """the list the library keeps as restriction_criteria / match_criteria"""
    if m["form"] in ("cmp", "list"):
        return [build_cmp(c) for c in m["cmps"]]
    return [build_bexpr(m["expr"])]


# ------------------------------------------------------------------------------------------------
# own XML rendering (lxml elements, no namespace handling here: `E` makes elements)


def _b(x, opts=None):
    """xs:boolean spelling; 'false' may also be written '0'"""
    if x:
        return "true"
    return "0" if opts and opts.get("false_as_0") else "false"


def render_cmp(E, c, opts=None):
    opts = opts or {}
    attrib = {"parameterRef": c["ref"], "value": c["value"]}
    if not (c["cal"] and opts.get("omit_defaults")):
        attrib["useCalibratedValue"] = _b(c["cal"], opts)
    if not (c["op"] == "==" and opts.get("omit_defaults")):
        attrib["comparisonOperator"] = c["op"].replace("&lt;", "<").replace("&gt;", ">") \
            if opts.get("entity_ops", True) else c["op"]
    return E("Comparison", attrib)


def _render_pref(E, name, cal, opts):
    attrib = {"parameterRef": name}
    if not (cal and opts.get("omit_defaults")):
        attrib["useCalibratedValue"] = _b(cal, opts)
    return E("ParameterInstanceRef", attrib)


def render_cond(E, c, opts=None):
    opts = opts or {}
    el = E("Condition", {})
    el.append(_render_pref(E, c["left"], c["lcal"], opts))
    op = E("ComparisonOperator", {})
    op.text = c["op"].replace("&lt;", "<").replace("&gt;", ">") if opts.get("entity_ops", True) else c["op"]
    el.append(op)
    if c["right"] is not None:
        el.append(_render_pref(E, c["right"], c["rcal"], opts))
    else:
        v = E("Value", {})
        v.text = c["value"]
        el.append(v)
    return el


def _render_group(E, e, opts):
    el = E("ANDedConditions" if e["t"] == "and" else "ORedConditions", {})
    for c in e["conds"]:
        el.append(render_cond(E, c, opts))
    for s in e["subs"]:
        el.append(_render_group(E, s, opts))
    return el


def render_bexpr(E, e, opts=None):
    opts = opts or {}
    el = E("BooleanExpression", {})
    if e["t"] == "cond":
        el.append(render_cond(E, e["cond"], opts))
    else:
        el.append(_render_group(E, e, opts))
    return el


def render_match_children(E, m, opts=None):
    """the element that goes inside RestrictionCriteria / ContextMatch / DiscreteLookup"""
    opts = opts or {}
    if m["form"] == "cmp":
        return render_cmp(E, m["cmps"][0], opts)
    if m["form"] == "list":
        el = E("ComparisonList", {})
        for c in m["cmps"]:
            el.append(render_cmp(E, c, opts))
        return el
    return render_bexpr(E, m["expr"], opts)


# ------------------------------------------------------------------------------------------------
# canonical dump (used by xdump): relation instead of spelling


def canon_cmp(c):
    return {"ref": c["ref"], "rel": SPELLINGS[c["op"]], "value": str(c["value"]), "cal": bool(c["cal"])}


def canon_cond(c):
    return {"left": c["left"], "lcal": bool(c["lcal"]), "rel": SPELLINGS[c["op"]], "right": c["right"],
            "rcal": bool(c["rcal"]) if c["right"] is not None else None,
            "value": None if c["right"] is not None else str(c["value"])}


def canon_bexpr(e):
    if e["t"] == "cond":
        return {"t": "cond", "cond": canon_cond(e["cond"])}
    return {"t": e["t"], "conds": [canon_cond(c) for c in e["conds"]], "subs": [canon_bexpr(s) for s in e["subs"]]}


def canon_match(m):
    if m["form"] in ("cmp", "list"):
        return {"kind": "comparisons", "items": [canon_cmp(c) for c in m["cmps"]]}
    return {"kind": "bool", "expr": canon_bexpr(m["expr"])}
