"""Calibrator model: library objects, own XML rendering, exact reference evaluation.

Model (plain JSON; floats are stored as Python floats, never NaN/inf):
  Cal = {"t": "poly", "terms": [[coef, exp], ...]}
      | {"t": "spline", "points": [[raw, cal], ...] (strictly increasing raw), "order": 0|1, "extrapolate": bool}
  CtxCal = {"match": Match (vf/crit.py), "cal": Cal}
"""
from fractions import Fraction

from vf import crit


class RefCalibrationError(Exception):
    """the reference semantics says the calibration must fail with a calibration error"""


class RefUndefined(Exception):
    """outside what the oracle asserts (non-finite query, result beyond the float range)"""


def ref_cal(cal, x):
    """exact evaluation. returns (Fraction value, Fraction magnitude of the terms, exact: bool).
    exact=True means any correct floating-point evaluation gives exactly float(value)."""
    if isinstance(x, float) and (x != x or x in (float("inf"), float("-inf"))):
        # NaN and the infinities do not lie in the closed range of any spline: without extrapolation the calibration
        # must fail; everything else about non-finite queries is not judged
        if cal["t"] == "spline" and not cal["extrapolate"]:
            raise RefCalibrationError(f"{x} is outside the closed range of the spline points")
        raise RefUndefined("non-finite query")
    q = Fraction(x)
    # An integer query beyond 2**53 may not be a double. Calibrators are evaluated in double arithmetic, so the
    # *value* may be that of the nearest double (the allowance below is the exact effect of that rounding, folded
    # into the magnitude so that close() grants it). Range membership and the choice of a step or segment are
    # discrete decisions and stay exact: Python compares an int with a float exactly.
    qf = Fraction(float(x)) if isinstance(x, int) and abs(x) < 2 ** 1000 else q
    if cal["t"] == "poly":
        total, mag = Fraction(0), Fraction(0)
        for c, e in cal["terms"]:
            if e and abs(q) ** e > Fraction(10) ** 300:
                # the power alone leaves the float range (whatever the coefficient, even 0): an overflow error, inf or
                # NaN are all what double arithmetic gives here - not judged
                raise RefUndefined("power beyond the float range")
            t = Fraction(c) * q ** e
            total += t
            mag += abs(t) + abs(Fraction(c) * (q ** e - qf ** e)) * 10 ** 9
        if mag > Fraction(10) ** 300:
            raise RefUndefined("terms beyond the float range")
        return total, mag, False
    pts = [(Fraction(a), Fraction(b)) for a, b in cal["points"]]
    xs = [p[0] for p in pts]
    order = cal["order"]
    if xs[0] <= q <= xs[-1]:
        if order == 0:
            below = [p for p in pts if p[0] <= q]
            return below[-1][1], abs(below[-1][1]), True
        if q == xs[-1]:
            i = len(pts) - 2
        else:
            i = max(j for j in range(len(pts) - 1) if xs[j] <= q)
        (x0, y0), (x1, y1) = pts[i], pts[i + 1]
        if abs((y1 - y0) / (x1 - x0)) > Fraction(10) ** 300:
            raise RefUndefined("slope beyond the float range")
        v = y0 + (y1 - y0) * (q - x0) / (x1 - x0)
        slack = abs((y1 - y0) / (x1 - x0)) * abs(q - qf) * 10 ** 9
        return v, abs(y0) + abs(y1) + abs((y1 - y0) * (q - x0) / (x1 - x0)) + slack, q == x0
    if not cal["extrapolate"]:
        raise RefCalibrationError(f"{x} outside [{cal['points'][0][0]}, {cal['points'][-1][0]}] without extrapolation")
    if order == 0:
        y = pts[-1][1] if q > xs[-1] else pts[0][1]
        return y, abs(y), True
    (x0, y0), (x1, y1) = (pts[-2], pts[-1]) if q > xs[-1] else (pts[0], pts[1])
    if abs((y1 - y0) / (x1 - x0)) > Fraction(10) ** 300:
        raise RefUndefined("slope beyond the float range")
    v = y0 + (y1 - y0) * (q - x0) / (x1 - x0)
    mag = abs(y0) + abs(y1) + abs((y1 - y0) / (x1 - x0)) * (abs(q) + abs(x0) + abs(q - qf) * 10 ** 9)
    if mag > Fraction(10) ** 300:
        raise RefUndefined("terms beyond the float range")
    return v, mag, False


def close(got: float, value: Fraction, mag: Fraction, exact: bool) -> bool:
    if got != got or got in (float("inf"), float("-inf")):
        return False
    if exact:
        return Fraction(got) == value
    return abs(Fraction(got) - value) <= mag / 10 ** 9 + Fraction(1, 10 ** 300)


def exact_friendly(cal) -> bool:
    """all coefficients/knots are small dyadic rationals, so results that feed control flow are evaluation-order
    independent for small integer inputs"""
    def dy(v):
        f = Fraction(v)
        return f.denominator in (1, 2, 4, 8) and abs(f) <= 4096
    if cal["t"] == "poly":
        return all(dy(c) and 0 <= e <= 3 for c, e in cal["terms"])
    return all(dy(a) and dy(b) for a, b in cal["points"])


# ---- library objects ----------------------------------------------------------------------------

def build_cal(cal):
    from space_packet_parser.xtce import calibrators
    if cal is None:
        return None
    if cal["t"] == "poly":
        return calibrators.PolynomialCalibrator(
            [calibrators.PolynomialCoefficient(coefficient=float(c), exponent=int(e)) for c, e in cal["terms"]])
    return calibrators.SplineCalibrator(
        [calibrators.SplinePoint(raw=float(a), calibrated=float(b)) for a, b in cal["points"]],
        order=cal["order"], extrapolate=cal["extrapolate"])


def build_ctx(ccals):
    from space_packet_parser.xtce import calibrators
    if ccals is None:
        return None
    return [calibrators.ContextCalibrator(match_criteria=crit.build_match(c["match"]), calibrator=build_cal(c["cal"]))
            for c in ccals]


# ---- own XML rendering -----------------------------------------------------------------------------

def fstr(v) -> str:
    """spelling of a float in XML: integral values sometimes without a fraction part"""
    return repr(float(v))


def render_cal(E, cal, opts=None):
    opts = opts or {}
    if cal["t"] == "poly":
        el = E("PolynomialCalibrator", {})
        for c, e in cal["terms"]:
            el.append(E("Term", {"coefficient": fstr(c), "exponent": str(e)}))
        return el
    attrib = {}
    if not (opts.get("omit_defaults") and cal["order"] == 0):
        attrib["order"] = str(cal["order"])
    if not (opts.get("omit_defaults") and not cal["extrapolate"]):
        attrib["extrapolate"] = crit._b(cal["extrapolate"], opts)
    el = E("SplineCalibrator", attrib)
    pts = list(cal["points"])
    if opts.get("reverse_points"):
        pts = pts[::-1]   # the library sorts the points on load
    for a, b in pts:
        el.append(E("SplinePoint", {"raw": fstr(a), "calibrated": fstr(b)}))
    return el


def render_default(E, cal, opts=None):
    el = E("DefaultCalibrator", {})
    el.append(render_cal(E, cal, opts))
    return el


def render_ctx_list(E, ccals, opts=None):
    lst = E("ContextCalibratorList", {})
    for c in ccals:
        cc = E("ContextCalibrator", {})
        cm = E("ContextMatch", {})
        cm.append(crit.render_match_children(E, c["match"], opts))
        cc.append(cm)
        ce = E("Calibrator", {})
        ce.append(render_cal(E, c["cal"], opts))
        cc.append(ce)
        lst.append(cc)
    return lst


# ---- canonical form --------------------------------------------------------------------------------

def canon_cal(cal):
    if cal is None:
        return None
    if cal["t"] == "poly":
        return {"t": "poly", "terms": [[float(c), int(e)] for c, e in cal["terms"]]}
    return {"t": "spline", "points": [[float(a), float(b)] for a, b in cal["points"]], "order": int(cal["order"]),
            "extrapolate": bool(cal["extrapolate"])}


def canon_ctx(ccals):
    if not ccals:
        return None
    return [{"match": crit.canon_match(c["match"]), "cal": canon_cal(c["cal"])} for c in ccals]


# ---- strategies -------------------------------------------------------------------------------------

def st_cal(exact=False, orders=(0, 1)):
    from hypothesis import strategies as st
    if exact:
        coef = st.sampled_from([0.0, 1.0, -1.0, 2.0, 0.5, -0.5, 3.0, 8.0, 0.25, 10.0, -7.0])
        knot = st.integers(-40, 300).map(float)
        yval = st.sampled_from([0.0, 1.0, -1.0, 2.0, 0.5, 8.0, 16.0, 24.0, 100.0, -3.0, 7.0])
        exps = st.integers(0, 2)
    else:
        coef = st.one_of(st.sampled_from([0.0, 1.0, -1.0, 0.5, -0.5, 1e-3, 1e6, 2.5, -273.15]),
                         st.floats(-1e6, 1e6, allow_nan=False, allow_infinity=False))
        # (with knots at and beyond 2**53, where neighbouring integers are no longer doubles)
        knot = st.one_of(st.integers(-100, 70000).map(float), st.floats(-1e6, 1e6, allow_nan=False),
                         st.integers(-100, 70000).map(float),
                         st.sampled_from([2.0 ** 53, 2.0 ** 53 + 2, 2.0 ** 62, 2.0 ** 63, 2.0 ** 63 + 2048, 2.0 ** 64,
                                          -(2.0 ** 53), -(2.0 ** 63)]))
        yval = st.one_of(st.sampled_from([0.0, 1.0, -1.0, 100.0]), st.floats(-1e6, 1e6, allow_nan=False))
        exps = st.integers(0, 5)

    @st.composite
    def poly(draw):
        n = draw(st.integers(1, 3 if exact else 6))
        return {"t": "poly", "terms": [[draw(coef), draw(exps)] for _ in range(n)]}

    @st.composite
    def spline(draw):
        order = draw(st.sampled_from(list(orders)))
        n = draw(st.integers(1 if order == 0 else 2, 8))
        xs = sorted(draw(st.lists(knot, min_size=n, max_size=n, unique=True)))
        return {"t": "spline", "points": [[x, draw(yval)] for x in xs], "order": order,
                "extrapolate": draw(st.booleans())}
    return st.one_of(poly(), spline())


# ---- numeric encodings -------------------------------------------------------------------------------
# Enc = {"k": "int", "bits", "sign", "order", "dcal": Cal|None, "ccals": [CtxCal]|None}
#     | {"k": "float", "bits", "fmt", "order", "dcal", "ccals"}

BE, LE = "mostSignificantByteFirst", "leastSignificantByteFirst"


def build_numeric_enc(enc):
    from space_packet_parser.xtce import encodings
    kw = {"byte_order": enc["order"], "default_calibrator": build_cal(enc.get("dcal")),
          "context_calibrators": build_ctx(enc.get("ccals"))}
    if enc["k"] == "int":
        return encodings.IntegerDataEncoding(enc["bits"], enc["sign"], **kw)
    return encodings.FloatDataEncoding(enc["bits"], encoding=enc["fmt"], **kw)


def render_numeric_enc(E, enc, opts=None):
    opts = opts or {}
    attrib = {"sizeInBits": str(enc["bits"])}
    if enc["k"] == "int":
        if not (opts.get("omit_defaults") and enc["sign"] == "unsigned"):
            attrib["encoding"] = enc["sign"]
        tag = "IntegerDataEncoding"
    else:
        if not (opts.get("omit_defaults") and enc["fmt"] == "IEEE754"):
            attrib["encoding"] = enc["fmt"]
        if opts.get("legacy_float_names") and enc["fmt"] in ("IEEE754", "MILSTD_1750A"):
            # spellings the library accepts (with a warning) as synonyms
            attrib["encoding"] = {"IEEE754": "IEEE-754", "MILSTD_1750A": "MIL-1750A"}[enc["fmt"]]
        tag = "FloatDataEncoding"
    if not (opts.get("omit_defaults") and enc["order"] == BE):
        attrib["byteOrder"] = enc["order"]
    el = E(tag, attrib)
    if enc.get("dcal") is not None:
        el.append(render_default(E, enc["dcal"], opts))
    if enc.get("ccals"):
        el.append(render_ctx_list(E, enc["ccals"], opts))
    return el


def ref_raw(enc, fbits):
    from vf import refbits
    if enc["k"] == "int":
        return refbits.ref_int(fbits, enc["sign"], enc["order"])
    if enc["fmt"] == "MILSTD_1750A":
        return refbits.ref_1750a(fbits, enc["order"])
    return refbits.ref_ieee(fbits, enc["order"])


def ref_select(enc, raw, values):
    """which calibrator applies: ('ctx', i, cal) | ('default', None, cal) | ('raw', None, None)"""
    for i, c in enumerate(enc.get("ccals") or []):
        if crit.ref_match(c["match"], values, current=raw):
            return "ctx", i, c["cal"]
    if enc.get("dcal") is not None:
        return "default", None, enc["dcal"]
    return "raw", None, None
