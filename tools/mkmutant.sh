#!/bin/sh
# usage: tools/mkmutant.sh <out.patch> <file-relative-to-repo> <python-expr-old> <python-expr-new>
# Makes a unified diff (a/ b/ prefixes, -p1 from the repo root) replacing exactly one occurrence of OLD by NEW.
set -e
out="$1"; f="$2"; old="$3"; new="$4"
tmp=$(mktemp -d /tmp/mkmut.XXXXXX)
mkdir -p "$tmp/a/$(dirname "$f")" "$tmp/b/$(dirname "$f")"
cp "/repo/$f" "$tmp/a/$f"
OLD="$old" NEW="$new" /venv/bin/python - "$tmp/a/$f" "$tmp/b/$f" <<'PY'
import os, sys
s = open(sys.argv[1]).read()
old, new = os.environ["OLD"], os.environ["NEW"]
old = old.encode().decode("unicode_escape"); new = new.encode().decode("unicode_escape")
assert s.count(old) == 1, f"OLD occurs {s.count(old)} times"
open(sys.argv[2], "w").write(s.replace(old, new))
PY
(cd "$tmp" && diff -u "a/$f" "b/$f" > "$OLDPWD/$out") || true
rm -rf "$tmp"
/venv/bin/python -c "import ast,sys" && echo "wrote $out: $(grep -c '^[-+][^-+]' $out) changed lines"
