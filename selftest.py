#!/venv/bin/python
"""Sensitivity self-test (development tooling, not a manifest check).

  ./selftest.py                      run every mutants/<ID>_*.patch and seeded/*/patch.diff
  ./selftest.py C03                  only those of one property
  ./selftest.py path/to.patch C03    one patch against one property's quick check
  ./selftest.py [C03] -j 4           run four patches at a time

For each patch: copy /repo to a scratch dir outside /repo and /verif, apply the patch, run the
property's quick check with VERIF_REPO=<scratch>, expect exit 1 (VIOLATION), remove the scratch copy.
"""
import glob
import json
import os
import shutil
import subprocess
import sys
import tempfile

VERIF = os.path.dirname(os.path.abspath(__file__))


def run_patch(patch, prop, tier="quick", verbose=False):
    scratch = tempfile.mkdtemp(prefix="spp_mut_")
    try:
        shutil.copytree("/repo/space_packet_parser", os.path.join(scratch, "space_packet_parser"))
        r = subprocess.run(["patch", "-p1", "-s", "-i", os.path.abspath(patch)], cwd=scratch,
                           capture_output=True, text=True)
        if r.returncode != 0:
            return "PATCH-FAILED", r.stdout + r.stderr
        env = dict(os.environ, VERIF_REPO=scratch, VERIF_NO_EVIDENCE="1")
        r = subprocess.run([os.path.join(VERIF, "check.py"), prop, "--tier", tier], cwd=VERIF, env=env,
                           capture_output=True, text=True)
        out = r.stdout + r.stderr
        status = {0: "MISSED", 1: "KILLED", 2: "HARNESS-ERROR"}.get(r.returncode, f"EXIT-{r.returncode}")
        return status, out
    finally:
        shutil.rmtree(scratch, ignore_errors=True)


def collect(only=None):
    items = []
    for p in sorted(glob.glob(os.path.join(VERIF, "mutants", "*.patch"))):
        prop = os.path.basename(p).split("_")[0]
        items.append((p, prop))
    for d in sorted(glob.glob(os.path.join(VERIF, "seeded", "*"))):
        meta = os.path.join(d, "meta.json")
        patch = os.path.join(d, "patch.diff")
        if os.path.exists(meta) and os.path.exists(patch):
            m = json.load(open(meta))
            for prop in m.get("detected_by", [m["property"]]):
                items.append((patch, prop))
    if only:
        items = [(p, pr) for p, pr in items if pr == only]
    return items


def main():
    args = sys.argv[1:]
    if len(args) == 2 and os.path.exists(args[0]):
        status, out = run_patch(args[0], args[1])
        print(out[-3000:])
        print(status)
        return 0 if status == "KILLED" else 1
    jobs = 1
    if "-j" in args:
        i = args.index("-j")
        jobs = int(args[i + 1])
        del args[i:i + 2]
    items = collect(args[0] if args else None)
    bad = 0
    from concurrent.futures import ThreadPoolExecutor
    with ThreadPoolExecutor(max_workers=jobs) as ex:
        for (patch, prop), (status, out) in zip(items, ex.map(lambda it: run_patch(*it), items)):
            first = next((l for l in out.splitlines() if l.startswith("  kind=")), "")
            print(f"{status:14s} {prop} {os.path.relpath(patch, VERIF)} {first[:150]}", flush=True)
            if status != "KILLED":
                bad += 1
                print(out[-1500:], flush=True)
    print(f"{len(items) - bad}/{len(items)} killed")
    return 1 if bad else 0


if __name__ == "__main__":
    sys.exit(main())
