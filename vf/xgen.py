"""Hypothesis strategies: XTCE document models (supported subset, DESIGN.md 2.3) and packets synthesised
from a document by running the reference decoder over a lazily extended bit stream (2.6)."""
import struct

from hypothesis import strategies as st

from vf import cal as calm
from vf import crit, pk, refbits, xdoc, xref

BE, LE = calm.BE, calm.LE
OPS_EQ = ["==", "eq"]
OPS_ALL = sorted(crit.SPELLINGS)

PROFILES = {
    # weights / bounds per feature mask
    "full": dict(max_containers=9, max_depth=4, fanout=3, fields=(0, 4), kinds=("int", "int", "float", "enum", "bool",
                 "str", "bin", "time", "mixedint"), nested=0.35, ctx=0.3, dcal=0.3, dyn=0.5, desc=0.3, arbitrary_names=0.3,
                 criteria_forms=("cmp", "list", "bool"), aligned=0.6, bare_base=0.08),
    "trees": dict(max_containers=12, max_depth=4, fanout=4, fields=(0, 3), kinds=("int", "int", "int", "enum", "bool",
                  "calint", "mixedint"), nested=0.5, ctx=0.0, dcal=0.0, dyn=0.0, desc=0.0, arbitrary_names=0.4,
                  criteria_forms=("cmp", "list", "bool"), aligned=0.3, small_ints=True, deep=True, bare_base=0.08),
    "blobs": dict(max_containers=3, max_depth=2, fanout=2, fields=(1, 4), kinds=("str", "str", "bin", "lenint", "int"),
                  nested=0.15, ctx=0.0, dcal=0.2, dyn=0.75, desc=0.0, arbitrary_names=0.1,
                  criteria_forms=("cmp", "list"), aligned=0.5),
    "flat": dict(max_containers=5, max_depth=2, fanout=4, fields=(1, 6), kinds=("int", "int", "float", "enum", "bool",
                 "str", "bin", "bin", "time", "calint", "lenint", "lenint", "mixedwide"), nested=0.0, ctx=0.2, dcal=0.3, dyn=0.6, desc=0.0,
                 arbitrary_names=0.0, criteria_forms=("cmp",), aligned=0.8, flat=True),
    "lengths": dict(max_containers=4, max_depth=2, fanout=2, fields=(1, 4), kinds=("str", "bin", "bin", "lenint", "int",
                    "float"), nested=0.2, ctx=0.0, dcal=0.15, dyn=0.8, desc=0.0, arbitrary_names=0.1,
                    criteria_forms=("cmp", "list"), aligned=0.6, negative_adj=True),
}

NAME_ALPHABET = "ABCDEFGHIJKLMNOPQRSTUVWXYZabcdefghijklmnopqrstuvwxyz_"
TEXTS = [None, None, "", "flag", "Supply voltage (V)", "a < b & c > \"d\" 'e'", "température °C", "日本語", "x  y",
         " lead and trail ", "line1\nline2", "tab\there", "µs"]


class Avail:
    """a parameter decoded earlier on every path reaching the current point"""

    def __init__(self, name, pt, referable):
        self.name, self.pt, self.referable = name, pt, referable


def value_kind(pt, cal_sel):
    """what a criterion sees: 'int' | 'float' | 'mixed' | 'label' | 'bool' | 'text' | None (never referenced)"""
    k = pt["kind"]
    enc = xdoc.effective_enc(pt)
    if enc["k"] in ("str", "bin"):
        if k == "str" and cal_sel:
            return "text"
        if k == "enum" and cal_sel:
            return "label"
        return None
    base = "int" if enc["k"] == "int" else "float"
    if k == "enum":
        return "label" if cal_sel else base
    if k == "bool":
        return "bool" if cal_sel else base
    if not cal_sel:
        return base
    if enc.get("dcal") is not None:
        return "float" if not enc.get("ccals") or True else "float"
    if enc.get("ccals"):
        return "mixed" if base == "int" else "float"
    return base


class Gen:
    def __init__(self, draw, profile):
        self.draw = draw
        self.p = dict(PROFILES[profile]) if isinstance(profile, str) else dict(profile)
        self.types, self.params, self.containers = [], [], []
        self.n = 0
        self.used_names = set()
        self.aligned_doc = self.chance(self.p["aligned"])

    # ---- small helpers ------------------------------------------------------------------------------
    def chance(self, p):
        return self.draw(st.floats(0, 1)) < p if 0 < p < 1 else p >= 1

    def fresh(self, prefix):
        self.n += 1
        if self.chance(self.p["arbitrary_names"]):
            body = self.draw(st.text(NAME_ALPHABET, min_size=1, max_size=6))
            name = f"{body}{self.n}"
            if self.chance(0.3):
                name = name + self.draw(st.sampled_from(["-a", ".b", "_c"]))
        else:
            name = f"{prefix}{self.n}"
        while name in self.used_names:
            name += "x"
        self.used_names.add(name)
        return name

    def text(self):
        if not self.chance(self.p["desc"]):
            return None
        return self.draw(st.one_of(st.sampled_from(TEXTS), st.text(
            st.characters(blacklist_categories=("Cs", "Cc"), blacklist_characters="\r\ufffe\uffff"), max_size=12)))   # XML 1.0 Char

    # ---- criteria ----------------------------------------------------------------------------------------
    def literal_for(self, av: Avail, cal_sel):
        vk = value_kind(av.pt, cal_sel)
        d = self.draw
        enc = xdoc.effective_enc(av.pt)
        if vk in ("int", "mixed"):
            if enc["k"] == "int":
                w = enc["bits"]
                hi = 2 ** w - 1 if enc["sign"] == "unsigned" else 2 ** (w - 1) - 1
                lo = 0 if enc["sign"] == "unsigned" else -2 ** (w - 1)
                if vk == "mixed" or enc.get("dcal"):
                    return str(d(st.integers(-4, 40)))
                return str(d(st.one_of(st.integers(max(lo, -3), min(hi, 12)), st.integers(lo, hi),
                                       st.sampled_from([0, 1, hi, lo]))))
            return str(d(st.integers(-3, 12)))
        if vk == "float":
            return repr(float(d(st.one_of(st.integers(-4, 40), st.sampled_from([0.5, 2.5, -1.5, 100.0, 8.0, 16.0])))))
        if vk == "bool":
            return d(st.sampled_from(["0", "1"]))
        if vk == "label":
            labels = [lab for _, lab in av.pt["enum"]] or ["NONE"]
            return d(st.sampled_from(labels + ["NO_SUCH_LABEL"]))
        if vk == "text":
            return d(st.sampled_from(["", "A", "AB", "ok", "x"]))
        raise AssertionError(vk)

    def pick_ref(self, avail, allow_text=False):
        """(Avail, cal_sel) of a referable parameter"""
        cands = []
        for av in avail:
            if not av.referable:
                continue
            for cs in (True, False):
                vk = value_kind(av.pt, cs)
                if vk is None or (vk == "text" and not allow_text):
                    continue
                cands.append((av, cs))
        if not cands:
            return None
        i = self.draw(st.integers(0, len(cands) - 1))
        return cands[i]

    def gen_cmp(self, avail, eq_bias=0.6):
        r = self.pick_ref(avail)
        av, cs = r
        op = self.draw(st.sampled_from(OPS_EQ)) if self.chance(eq_bias) else self.draw(st.sampled_from(OPS_ALL))
        return {"ref": av.name, "op": op, "value": self.literal_for(av, cs), "cal": cs}

    def gen_cond(self, avail):
        av, cs = self.pick_ref(avail)
        op = self.draw(st.sampled_from(OPS_ALL))
        if self.chance(0.25):
            vk = value_kind(av.pt, cs)
            num = {"int", "float", "mixed", "bool"}
            others = [(a, c) for a in avail if a.referable for c in (True, False)
                      if value_kind(a.pt, c) is not None and ((value_kind(a.pt, c) in num) == (vk in num))
                      and (vk in num or value_kind(a.pt, c) == vk)]
            if others:
                a2, c2 = others[self.draw(st.integers(0, len(others) - 1))]
                return {"left": av.name, "lcal": cs, "op": op, "right": a2.name, "rcal": c2, "value": None}
        lit = self.literal_for(av, cs)
        if lit == "":
            lit = "A"
        return {"left": av.name, "lcal": cs, "op": op, "right": None, "rcal": False, "value": lit}

    def gen_group(self, avail, kind, depth):
        nsubs = self.draw(st.integers(0, 2)) if depth > 0 else 0
        # a group may consist of nested groups only, e.g. (a and b) or (c and d)
        conds = [self.gen_cond(avail) for _ in range(self.draw(st.integers(0 if nsubs else 1, 3)))]
        subs = [self.gen_group(avail, "or" if kind == "and" else "and", depth - 1) for _ in range(nsubs)]
        return {"t": kind, "conds": conds, "subs": subs}

    def gen_match(self, avail, forms=None):
        forms = forms or self.p["criteria_forms"]
        form = self.draw(st.sampled_from(list(forms)))
        if form == "cmp":
            return {"form": "cmp", "cmps": [self.gen_cmp(avail)]}
        if form == "list":
            return {"form": "list", "cmps": [self.gen_cmp(avail) for _ in range(self.draw(st.integers(1, 3)))]}
        t = self.draw(st.sampled_from(["cond", "and", "or"]))
        if t == "cond":
            return {"form": "bool", "expr": {"t": "cond", "cond": self.gen_cond(avail)}}
        return {"form": "bool", "expr": self.gen_group(avail, t, self.draw(st.integers(0, 2)))}

    # ---- encodings and types -------------------------------------------------------------------------------------
    def gen_cal(self, exact):
        return self.draw(calm.st_cal(exact=exact))

    def gen_numeric_enc(self, which, avail, referable, own_name=None, small=False):
        d = self.draw
        if which == "int":
            if self.aligned_doc and (small or self.p.get("small_ints")):
                bits = 8
            elif small or self.p.get("small_ints"):
                bits = d(st.integers(1, 8))
            elif self.aligned_doc:
                bits = d(st.sampled_from([8, 8, 16, 16, 24, 32, 40, 64, 72] if not self.p.get("flat") else
                                         [8, 8, 16, 16, 24, 32, 40, 64, 64]))
            else:
                bits = d(st.one_of(st.integers(1, 16), st.integers(1, 72 if not self.p.get("flat") else 64)))
            enc = {"k": "int", "bits": bits, "sign": d(st.sampled_from(["unsigned", "unsigned", "signed", "twosComplement"])),
                   "order": d(st.sampled_from([BE, BE, LE])) if bits % 8 == 0 else BE}
        else:
            fmt = d(st.sampled_from(["IEEE754", "IEEE754", "IEEE754_1985", "MILSTD_1750A"]))
            bits = 32 if fmt == "MILSTD_1750A" else d(st.sampled_from([16, 32, 64]))
            enc = {"k": "float", "bits": bits, "fmt": fmt, "order": d(st.sampled_from([BE, BE, LE]))}
        enc["dcal"] = self.gen_cal(referable) if self.chance(self.p["dcal"]) else None
        enc["ccals"] = None
        if self.chance(self.p["ctx"]):
            ccals = []
            for _ in range(d(st.integers(1, 3))):
                refs_ok = any(a.referable for a in avail)
                if own_name and (not refs_ok or self.chance(0.4)):
                    lit = str(d(st.integers(0, 9))) if which == "int" else repr(float(d(st.integers(-2, 9))))
                    m = {"form": "cmp", "cmps": [{"ref": own_name, "op": d(st.sampled_from(OPS_ALL)), "value": lit,
                                                  "cal": False}]}
                elif refs_ok:
                    m = self.gen_match(avail, forms=("cmp", "list", "bool"))
                else:
                    continue
                ccals.append({"match": m, "cal": self.gen_cal(referable)})
            enc["ccals"] = ccals or None
        return enc

    def gen_len(self, avail, is_str):
        d = self.draw
        lo = 1 if is_str else 0

        def bits_value():
            if self.aligned_doc:
                return 8 * d(st.integers(lo, 12))
            return d(st.one_of(st.integers(lo, 40), st.integers(lo, 400)))
        form = "fixed"
        len_srcs = [a for a in avail if a.referable and value_kind(a.pt, False) == "int"
                    and xdoc.effective_enc(a.pt)["k"] == "int" and xdoc.effective_enc(a.pt)["sign"] == "unsigned"
                    and xdoc.effective_enc(a.pt)["bits"] <= 8 and a.pt["kind"] in ("int", "time")]
        if self.chance(self.p["dyn"]):
            form = d(st.sampled_from(["dyn", "dyn", "lookup"])) if len_srcs else \
                ("lookup" if any(a.referable for a in avail) else "fixed")
        if form == "fixed":
            return {"t": "fixed", "bits": max(1, bits_value())}
        if form == "lookup":
            entries = []
            for _ in range(d(st.integers(1, 4))):
                m = self.gen_match(avail, forms=("cmp", "list"))
                entries.append({"match": m, "value": max(1 if is_str else 0, bits_value())})
            if self.chance(0.6):   # a catch-all so that most packets find an entry
                av, cs = self.pick_ref(avail)
                vk = value_kind(av.pt, cs)
                if vk in ("int", "mixed", "float", "bool"):
                    lit = "-100000" if vk != "float" else "-100000.0"
                    if vk == "bool":
                        lit = "0"
                    entries.append({"match": {"form": "cmp", "cmps": [{"ref": av.name, "op": ">=", "value": lit, "cal": cs}]},
                                    "value": max(1, bits_value())})
            return {"t": "lookup", "entries": entries}
        src = len_srcs[d(st.integers(0, len(len_srcs) - 1))]
        enc = xdoc.effective_enc(src.pt)
        has_cal = enc.get("dcal") is not None or bool(enc.get("ccals"))
        cal = self.chance(0.5) if not has_cal else (self.chance(0.4) and calm.exact_friendly(enc["dcal"] or {"t": "poly", "terms": []}) and not enc.get("ccals") and enc["dcal"]["t"] == "poly" and all(float(c).is_integer() and c >= 0 for c, _ in enc["dcal"]["terms"]))
        adj = None
        if self.chance(0.6):
            slope = d(st.sampled_from([8, 8, 1, 2, 16, 0]))
            intercept = d(st.sampled_from([0, 0, 8, 16, 1, 3]))
            if self.aligned_doc:
                slope = d(st.sampled_from([8, 8, 16, 0]))
                intercept = d(st.sampled_from([0, 0, 8, 16]))
            if self.p.get("negative_adj") and self.chance(0.4):
                intercept = -d(st.sampled_from([8, 16, 24, 1] if not self.aligned_doc else [8, 16, 24]))
            if is_str and slope == 0 and intercept <= 0:
                intercept = 8
            adj = {"slope": slope, "intercept": intercept}
        if self.aligned_doc and adj is None:
            adj = {"slope": 8, "intercept": 0}
        return {"t": "dyn", "ref": src.name, "cal": bool(cal), "adj": adj}

    def gen_str_enc(self, avail):
        d = self.draw
        cs = d(st.sampled_from(list(xdoc.CHARSETS)))
        enc = {"k": "str", "charset": cs, "order": None, "len": self.gen_len(avail, True), "delim": None}
        if cs in xdoc.MULTIBYTE:
            enc["order"] = d(st.sampled_from([BE, LE]))
        kind = d(st.sampled_from(["none", "term", "lead"]))
        if kind == "term":
            ch = d(st.sampled_from(["\x00", "!", ";", "\n", "X", "é", "€", "☃"]))
            try:
                b = ch.encode(xdoc.codec_for(enc))
            except UnicodeEncodeError:
                b = "\x00".encode(xdoc.codec_for(enc))
            if len(b) != xdoc.unit_bytes(enc) and cs != "UTF-8":
                b = "\x00".encode(xdoc.codec_for(enc))
            enc["delim"] = {"t": "term", "hex": b.hex().upper() if self.chance(0.5) else b.hex()}
        elif kind == "lead":
            enc["delim"] = {"t": "lead", "bits": d(st.sampled_from([8, 8, 16, 16, 4, 12, 32] if not self.aligned_doc
                                                                  else [8, 16, 32]))}
        return enc

    def gen_type(self, kind, avail, referable, pname):
        d = self.draw
        name = self.fresh("T")
        unit = d(st.sampled_from([None, None, "V", "deg C", "m/s^2", "counts"])) if self.chance(0.4) else None
        pt = {"kind": kind, "name": name, "unit": unit}
        if kind in ("int", "calint", "lenint", "mixedint", "mixedwide"):
            pt["kind"] = "int"
            enc = self.gen_numeric_enc("int", avail, True, pname, small=(kind in ("lenint", "mixedint")))
            if kind == "mixedwide":
                enc["bits"], enc["order"] = d(st.sampled_from([64, 64, 56, 40])), d(st.sampled_from([BE, LE]))
            if kind == "calint":
                enc["dcal"] = self.gen_cal(True)
            if kind in ("mixedint", "mixedwide"):
                # calibrated only in some contexts: the derived value is a float in some packets and an int in others
                enc["dcal"] = None
                ccals = []
                for _ in range(d(st.integers(1, 2))):
                    if any(a.referable for a in avail) and self.chance(0.6):
                        m = self.gen_match(avail, forms=("cmp", "list"))
                    else:
                        m = {"form": "cmp", "cmps": [{"ref": pname, "op": d(st.sampled_from(["<", ">=", "!=", "=="])),
                                                      "value": str(d(st.integers(0, 5))), "cal": False}]}
                    ccals.append({"match": m, "cal": self.gen_cal(True)})
                enc["ccals"] = ccals
            if kind == "lenint":
                enc["sign"] = "unsigned"
                enc["ccals"] = None
                enc["dcal"] = ({"t": "poly", "terms": [[float(d(st.sampled_from([8, 1, 2]))), 1]] + ([[8.0, 0]] if self.chance(0.3) else [])}
                               if self.chance(0.3) else None)
            pt["enc"] = enc
        elif kind == "float":
            pt["enc"] = self.gen_numeric_enc("float", avail, referable, pname)
        elif kind == "time":
            pt["kind"] = d(st.sampled_from(["abstime", "reltime"]))
            enc = self.gen_numeric_enc(d(st.sampled_from(["int", "int", "float"])), avail, referable, pname)
            enc["dcal"] = None
            pt["enc"] = enc
            pt["time"] = {"scale": d(st.sampled_from([None, 1.0, 0.001, 2.0, 1e-6, 0.5, 0.0, -1.0])),
                          "offset": d(st.sampled_from([None, None, 0.0, 10.0, -2.5]))}
            pt["unit"] = d(st.sampled_from(["s", "seconds", "ms", None] if self.p.get("time_unit_optional", True) else ["s", "ms"]))
            pt["epoch"] = d(st.sampled_from([None, "TAI", "J2000", "UNIX", "2020-01-01", "2000-01-01T12:00:00Z"]))
            # <ReferenceTime><OffsetFrom parameterRef=.../>: documentation of the time origin, not used for decoding
            pt["offset_from"] = d(st.sampled_from([a.name for a in avail])) if avail and self.chance(0.3) else None
        elif kind == "enum":
            which = d(st.sampled_from(["int", "int", "int", "float", "str"]))
            if which == "str" and not self.p.get("small_ints"):
                nbytes = d(st.integers(1, 2))
                cs = d(st.sampled_from(["US-ASCII", "ISO-8859-1", "UTF-8", "UTF-16", "UTF-16BE", "UTF-16LE", "UTF-32"]))
                unit = 2 if cs.startswith("UTF-16") else 4 if cs.startswith("UTF-32") else 1
                pt["enc"] = {"k": "str", "charset": cs, "order": d(st.sampled_from([BE, LE])) if cs in xdoc.MULTIBYTE else None,
                             "len": {"t": "fixed", "bits": 8 * nbytes * unit}, "delim": None}
                keys = d(st.lists(st.text("ABCab01", min_size=nbytes, max_size=nbytes), min_size=1, max_size=4, unique=True))
                pt["enum"] = [[k, f"S_{k}"] for k in keys]
            elif which == "float" and not self.p.get("small_ints"):
                pt["enc"] = self.gen_numeric_enc("float", avail, True, pname)
                keys = d(st.lists(st.sampled_from([0.0, 1.0, -1.0, 2.0, 0.5, 100.0]), min_size=1, max_size=4, unique=True))
                pt["enum"] = [[float(k).hex(), f"F{i}"] for i, k in enumerate(keys)]
            else:
                wide = not self.p.get("small_ints") and not self.aligned_doc and self.chance(0.15)
                enc = self.gen_numeric_enc("int", avail, True, pname, small=not wide)
                if wide:
                    enc["bits"] = d(st.sampled_from([54, 56, 63, 64]))   # keys that no double represents
                    if enc["bits"] % 8:
                        enc["order"] = BE
                pt["enc"] = enc
                hi = 2 ** enc["bits"] - 1 if enc["sign"] == "unsigned" else 2 ** (enc["bits"] - 1) - 1
                lo = 0 if enc["sign"] == "unsigned" else -2 ** (enc["bits"] - 1)
                keys = d(st.lists(st.integers(lo, hi), min_size=1, max_size=min(6, hi - lo + 1), unique=True))
                if wide:
                    keys = list(dict.fromkeys(keys[:3] + [hi, hi - 2, 2 ** 53 + 1]))
                if self.chance(0.7) and hi - lo < 16:
                    keys = list(range(lo, hi + 1))
                pt["enum"] = [[k, d(st.sampled_from(["ON", "OFF", "IDLE", "SAFE", "L", " ON", "ON  "])) + str(i)
                               + d(st.sampled_from(["", "", "", " ", "  "]))] for i, k in enumerate(keys)]
        elif kind == "bool":
            which = d(st.sampled_from(["int", "int", "int", "float"])) if not self.p.get("small_ints") else "int"
            pt["enc"] = self.gen_numeric_enc(which, avail, True, pname, small=(which == "int"))
        elif kind == "str":
            pt["enc"] = self.gen_str_enc(avail)
        elif kind == "bin":
            pt["enc"] = {"k": "bin", "len": self.gen_len(avail, False)}
        else:
            raise AssertionError(kind)
        self.types.append(pt)
        return pt

    def new_param(self, avail, kind=None, referable=None):
        d = self.draw
        kind = kind or d(st.sampled_from(list(self.p["kinds"])))
        pname = self.fresh("P")
        if referable is None:
            referable = kind in ("int", "calint", "lenint", "mixedint", "mixedwide", "enum", "bool") or self.chance(0.3)
        reuse = [t for t in self.types if t.get("_reusable") and t["kind"] == kind]
        if reuse and self.chance(0.2):
            pt = reuse[d(st.integers(0, len(reuse) - 1))]
        else:
            pt = self.gen_type(kind, avail, referable, pname)
            enc = pt["enc"]
            simple = enc["k"] in ("int", "float") and not enc.get("ccals")
            pt["_reusable"] = simple or (enc["k"] in ("str", "bin") and enc["len"]["t"] == "fixed")
            pt["_referable"] = referable
        self.params.append({"name": pname, "type": pt["name"], "short": self.text(), "long": self.text()})
        return Avail(pname, pt, pt.get("_referable", referable))

    # ---- containers --------------------------------------------------------------------------------------------------
    def fields(self, avail, lo_hi=None):
        lo, hi = lo_hi or self.p["fields"]
        out = []
        local = list(avail)
        for _ in range(self.draw(st.integers(lo, hi))):
            av = self.new_param(local)
            local.append(av)
            out.append(av)
        return out

    def nested_container(self, avail):
        """a container used by reference in entry lists; its references stay inside `avail` (header) + itself"""
        name = self.fresh("N")
        fs = self.fields(avail, (1, 3))
        entries = [["p", f.name] for f in fs]
        if self.chance(0.25) and len(self.containers) < self.p["max_containers"]:
            pos = self.draw(st.integers(0, len(entries)))
            inner, inner_fs = self.nested_container(avail + fs[:pos])   # only what is decoded before it
            entries.insert(pos, ["c", inner])
            fs = fs + inner_fs
        self.containers.append({"name": name, "entries": entries, "base": None, "match": None,
                                "abstract": self.chance(0.3), "short": self.text(), "long": self.text()})
        return name, fs

    def subtree(self, parent, avail, depth, reusable_nested):
        if depth >= self.p["max_depth"]:
            return
        nchild = self.draw(st.integers(0 if depth else 1, self.p["fanout"]))
        if self.p.get("deep") and depth < 2 and nchild == 0 and self.chance(0.8):
            nchild = 1
        for _ in range(nchild):
            if len(self.containers) >= self.p["max_containers"]:
                return
            name = self.fresh("C")
            match = self.gen_match(avail) if any(a.referable for a in avail) else None
            if self.chance(self.p.get("bare_base", 0.0)):
                match = None   # <BaseContainer containerRef=.../> without RestrictionCriteria: always a valid inheritor
            fs = self.fields(avail)
            entries = [["p", f.name] for f in fs]
            extra = []
            for _ in range(2):
                if not self.chance(self.p["nested"]):
                    break
                taken = set(a.name for a in avail) | set(x.name for x in extra)
                usable = [n for n in reusable_nested if not (set(x.name for x in n[1]) & taken)]
                if usable and self.chance(0.5):
                    nn, nfs = usable[self.draw(st.integers(0, len(usable) - 1))]
                else:
                    nn, nfs = self.nested_container(avail[:7])
                    reusable_nested.append((nn, nfs))
                entries.insert(self.draw(st.integers(0, len(entries))), ["c", nn])
                extra = extra + nfs
            c = {"name": name, "entries": entries, "base": parent, "match": match,
                 "abstract": self.chance(0.25), "short": self.text(), "long": self.text()}
            self.containers.append(c)
            self.subtree(name, avail + fs + extra, depth + 1, reusable_nested)

    def doc(self):
        d = self.draw
        if self.chance(self.p["arbitrary_names"]):
            hnames = d(st.sampled_from([("VER", "TYP", "SHF", "APID", "SEQF", "SEQC", "LEN"),
                                        ("H_V", "H_T", "H_S", "H_APID", "H_GRP", "H_CNT", "H_LEN")]))
        else:
            hnames = pk.HEADER_NAMES
        avail = []
        for hn, w in zip(hnames, pk.HEADER_WIDTHS):
            self.used_names.add(hn)
            pt = {"kind": "int", "name": hn + "_Type", "unit": None,
                  "enc": {"k": "int", "bits": w, "sign": "unsigned", "order": BE, "dcal": None, "ccals": None},
                  "_referable": True}
            self.types.append(pt)
            self.params.append({"name": hn, "type": pt["name"], "short": self.text(), "long": None})
            avail.append(Avail(hn, pt, True))
        root_name = "CCSDSPacket" if not self.chance(self.p["arbitrary_names"]) else self.fresh("Root")
        root_fields = self.fields(avail, (0, 2)) if not self.p.get("flat") else []
        root = {"name": root_name, "entries": [["p", a.name] for a in avail + root_fields], "base": None, "match": None,
                "abstract": self.chance(0.6) or bool(self.p.get("flat")), "short": self.text(), "long": self.text()}
        self.containers.append(root)
        if self.p.get("flat"):
            napid = d(st.integers(1, 4))
            apids = d(st.lists(st.integers(0, 2047), min_size=napid, max_size=napid, unique=True))
            for apid in apids:
                fs = self.fields(avail)
                self.containers.append({"name": self.fresh("C"), "entries": [["p", f.name] for f in fs], "base": root_name,
                                        "match": {"form": "cmp", "cmps": [{"ref": hnames[3], "op": "==", "value": str(apid),
                                                                           "cal": self.chance(0.5)}]},
                                        "abstract": False, "short": None, "long": None})
        else:
            self.subtree(root_name, avail + root_fields, 0, [])
        if self.chance(self.p.get("wrapper", 0.2)):
            # an alternative root that is never reached from the root: it uses a container of the main tree (one
            # that has inheritors, or the root itself) by reference; wherever it stands in the document, decoding
            # from the root is unaffected
            bases = sorted({c["base"] for c in self.containers if c.get("base")} | {root_name})
            target = d(st.sampled_from(bases))
            wentries = [["c", target]]
            if target == root_name:
                # a usable alternative root (it begins with the header): the root's own entries, then one byte
                wt = {"kind": "int", "name": self.fresh("WT"), "unit": None,
                      "enc": {"k": "int", "bits": 8, "sign": "unsigned", "order": BE, "dcal": None, "ccals": None}}
                self.types.append(wt)
                wp = self.fresh("WP")
                self.params.append({"name": wp, "type": wt["name"], "short": None, "long": None})
                wentries.append(["p", wp])
            elif self.chance(0.5):
                wentries.append(["p", d(st.sampled_from([p["name"] for p in self.params]))])
            self.containers.insert(d(st.integers(0, len(self.containers))),
                                   {"name": self.fresh("W"), "entries": wentries, "base": None, "match": None,
                                    "abstract": False, "short": None, "long": self.text()})
        if self.chance(self.p.get("spare", 0.15)):
            # parameters that no container uses (legal, common in hand-written documents): with a type of their own
            # or sharing one; they are not part of what the containers define
            for _ in range(d(st.integers(1, 2))):
                if self.chance(0.5):
                    tname = self.fresh("ST")
                    self.types.append({"kind": "int", "name": tname, "unit": d(st.sampled_from([None, "V"])),
                                       "enc": {"k": "int", "bits": d(st.sampled_from([8, 16, 3])), "sign": "unsigned",
                                               "order": BE, "dcal": None, "ccals": None}})
                else:
                    tname = d(st.sampled_from([t["name"] for t in self.types]))
                self.params.insert(d(st.integers(0, len(self.params))),
                                   {"name": self.fresh("SP"), "type": tname, "short": self.text(), "long": None})
        # order of the container set is free: sometimes list children before parents / nested after users
        order = d(st.sampled_from(["as-built", "reversed", "root-first"]))
        conts = list(self.containers)
        if order == "reversed":
            conts = conts[::-1]
        elif order == "root-first":
            conts = [root] + [c for c in conts if c is not root]
        for t in self.types:
            t.pop("_reusable", None)
            t.pop("_referable", None)
        return {"name": d(st.sampled_from([None, "SYS", "Space System 1"])),
                "date": d(st.sampled_from(["2024-03-05T13:36:00", "2020-01-01", "x"])),
                "root": root_name, "types": self.types, "params": self.params, "containers": conts}


@st.composite
def gen_doc(draw, profile="full"):
    return Gen(draw, profile).doc()


# =================================================================================================
# packet synthesis


def doc_literals(doc):
    """param name -> list of literal strings any criterion / lookup compares it with"""
    out = {}

    def add_match(m):
        if not m:
            return
        for n, lit in crit.match_literals(m):
            out.setdefault(n, []).append(lit)

    def add_len(ln):
        if ln["t"] == "lookup":
            for e in ln["entries"]:
                add_match(e["match"])
    for t in doc["types"]:
        enc = t["enc"]
        if enc["k"] in ("int", "float"):
            for c in enc.get("ccals") or []:
                add_match(c["match"])
        else:
            add_len(enc["len"])
    for c in doc["containers"]:
        add_match(c.get("match"))
    return out


def len_sources(doc):
    out = set()
    for t in doc["types"]:
        if t["enc"]["k"] in ("str", "bin") and t["enc"]["len"]["t"] == "dyn":
            out.add(t["enc"]["len"]["ref"])
    return out


def referenced_params(doc):
    refs = set(doc_literals(doc)) | len_sources(doc)

    def add_match(m):
        if m:
            for n, _ in crit.match_refs(m):
                refs.add(n)
    for t in doc["types"]:
        enc = t["enc"]
        if enc["k"] in ("int", "float"):
            for c in enc.get("ccals") or []:
                add_match(c["match"])
        elif enc["len"]["t"] == "lookup":
            for e in enc["len"]["entries"]:
                add_match(e["match"])
    for c in doc["containers"]:
        add_match(c.get("match"))
    return refs


def int_to_bits(v, enc):
    w = enc["bits"]
    v = int(v)
    if enc["sign"] != "unsigned":
        v = max(-2 ** (w - 1), min(2 ** (w - 1) - 1, v))
        if v < 0:
            v += 2 ** w
    else:
        v = max(0, min(2 ** w - 1, v))
    b = format(v, f"0{w}b")
    if enc["order"] == LE and w % 8 == 0:
        b = refbits.reverse_bytes(b)
    return b


def float_to_bits(x, enc):
    w = enc["bits"]
    if enc["fmt"] == "MILSTD_1750A":
        # mantissa * 2^(exp-23): encode small integers / dyadics exactly when possible
        import math
        if x == 0 or x != x or math.isinf(x):
            b = "0" * 32
        else:
            m, e = math.frexp(x)      # x = m * 2^e, 0.5 <= |m| < 1
            mant = int(m * 2 ** 23)
            e = max(-128, min(127, e))
            b = format(mant & 0xFFFFFF, "024b") + format(e & 0xFF, "08b")
    else:
        try:
            raw = struct.pack({16: ">e", 32: ">f", 64: ">d"}[w], x)
        except (OverflowError, struct.error):
            raw = struct.pack({16: ">e", 32: ">f", 64: ">d"}[w], 0.0)
        b = refbits.bits_of(raw)
    if enc["order"] == LE:
        b = refbits.reverse_bytes(b)
    return b


STR_SAMPLES = {1: ["", "A", "AB", "ok", "x", "Hello", "a b", "0", "é", "ÿ", "~"],
               2: ["", "A", "AB", "ok", "日本", "é€", "☃!", "\U0001F680", "!℀", "Ā!"],
               4: ["", "A", "AB", "ok", "日本", "\U0001F680", "é"]}


def make_chooser(draw, doc, style=None):
    lits = doc_literals(doc)
    lsrc = len_sources(doc)

    def numeric_candidates(name, pt, enc):
        vals = []
        for lit in lits.get(name, []):
            try:
                f = float(lit)
            except ValueError:
                # an enumeration label: use its key
                for k, lab in pt.get("enum", []):
                    if lab == lit:
                        vals.append(xdoc.enum_key(pt, k))
                continue
            vals += [f, f + 1, f - 1]
            if enc.get("dcal") or enc.get("ccals"):
                vals += list(range(0, 9))
        if pt["kind"] == "enum":
            vals += [xdoc.enum_key(pt, k) for k, _ in pt["enum"]]
        for c in [enc.get("dcal")] + [c["cal"] for c in enc.get("ccals") or []]:
            if c and c["t"] == "spline":
                xs = [p[0] for p in c["points"]]
                vals += xs + [xs[0] - 1, xs[-1] + 1]
        if name in lsrc:
            vals += [0, 1, 2, 3, 4, 5, 8, 16]
            if enc.get("sign") in ("signed", "twosComplement"):
                vals += [-8, -16, -24, -1, -7]     # a signed length source can make a length negative on its own
        return vals

    def chooser(n, info):
        pt, enc, name = info["ptype"], info["enc"], info["name"]
        if info.get("have"):
            return "".join(draw(st.sampled_from("01")) for _ in range(n)) if n < 64 else format(draw(st.integers(0, 2 ** n - 1)), f"0{n}b")
        if enc["k"] == "int":
            cands = [v for v in numeric_candidates(name, pt, enc) if isinstance(v, (int, float)) and v == v
                     and float(v).is_integer()]
            mode = draw(st.sampled_from(["cand", "cand", "edge", "rand"])) if cands else draw(st.sampled_from(["edge", "rand", "rand"]))
            if pt["kind"] == "enum" and draw(st.integers(0, 9)):
                mode, cands = "cand", [xdoc.enum_key(pt, k) for k, _ in pt["enum"]]
            if mode == "cand":
                return int_to_bits(int(cands[draw(st.integers(0, len(cands) - 1))]), enc)
            if mode == "edge":
                w = n
                return format(draw(st.sampled_from([0, 1, 2 ** w - 1, 2 ** (w - 1), 2 ** (w - 1) - 1 if w > 1 else 0])), f"0{w}b")
            return format(draw(st.integers(0, 2 ** n - 1)), f"0{n}b")
        if enc["k"] == "float":
            cands = [float(v) for v in numeric_candidates(name, pt, enc) if isinstance(v, (int, float))]
            mode = draw(st.sampled_from(["cand", "cand", "special", "rand"])) if cands else draw(st.sampled_from(["special", "small", "rand"]))
            if pt["kind"] == "enum" and draw(st.integers(0, 9)):
                mode, cands = "cand", [xdoc.enum_key(pt, k) for k, _ in pt["enum"]]
            if mode == "cand":
                return float_to_bits(cands[draw(st.integers(0, len(cands) - 1))], enc)
            if mode == "small":
                return float_to_bits(float(draw(st.integers(-4, 12))), enc)
            if mode == "special" and enc["fmt"] != "MILSTD_1750A":
                x = draw(st.sampled_from([0.0, -0.0, 1.0, -1.0, 0.5, float("inf"), float("-inf"), float("nan"), 5e-324, 65504.0]))
                return float_to_bits(x, enc)
            return format(draw(st.integers(0, 2 ** n - 1)), f"0{n}b")
        if enc["k"] == "bin":
            mode = draw(st.sampled_from(["rand", "zeros", "ones", "lead0"]))
            if mode == "zeros":
                return "0" * n
            if mode == "ones":
                return "1" * n
            b = format(draw(st.integers(0, 2 ** n - 1)), f"0{n}b") if n else ""
            return ("0" * min(8, n) + b)[:n] if mode == "lead0" else b
        # string buffer of n bits
        return string_bits(draw, pt, enc, n)
    return chooser


def string_bits(draw, pt, enc, n):
    codec = xdoc.codec_for(enc)
    u = xdoc.unit_bytes(enc)
    nbytes = n // 8
    d = enc.get("delim")
    mode = draw(st.sampled_from(["text", "text", "text", "rand"]))
    if pt["kind"] == "enum" and draw(st.integers(0, 3)):
        keys = [k for k, _ in pt["enum"]]
        body = keys[draw(st.integers(0, len(keys) - 1))].encode(codec)
        bits = refbits.bits_of(body)
        return (bits + "0" * n)[:n]
    if mode == "rand" or nbytes == 0:
        return format(draw(st.integers(0, 2 ** n - 1)), f"0{n}b") if n else ""

    def enc_text(maxbytes):
        s = draw(st.one_of(st.sampled_from(STR_SAMPLES[u]), st.text(st.characters(blacklist_categories=("Cs",)), max_size=6)))
        out = b""
        for ch in s:
            try:
                b = ch.encode(codec)
            except UnicodeEncodeError:
                b = "?".encode(codec)
            if len(out) + len(b) > maxbytes:
                break
            out += b
        return out
    if d and d["t"] == "lead":
        tag = d["bits"]
        room_bits = n - tag
        if room_bits < 0:
            return format(draw(st.integers(0, 2 ** n - 1)), f"0{n}b")
        body = enc_text(room_bits // 8)
        size = len(body) * 8
        how = draw(st.sampled_from(["ok", "ok", "ok", "too-large", "odd"]))
        if how == "too-large":
            size = room_bits + 8
        elif how == "odd":
            size += 3
        size = min(size, 2 ** tag - 1)
        bits = format(size, f"0{tag}b") + refbits.bits_of(body)
        fill = draw(st.sampled_from(["0", "1"]))
        return (bits + fill * n)[:n]
    if d and d["t"] == "term":
        t = bytes.fromhex(d["hex"])
        how = draw(st.sampled_from(["present", "present", "present", "absent", "misaligned"] +
                                   (["misaligned", "misaligned"] if u > 1 else [])))
        body = enc_text(max(0, nbytes - len(t)))
        body = body.replace(t, b"") if u == 1 else body   # (u == 1 covers UTF-8 with terminators of any length)
        if how == "present":
            raw = body + t
        elif how == "misaligned" and u > 1:
            # two valid characters whose adjacent bytes spell the terminator across the character boundary,
            # followed by a real (aligned) terminator
            k = draw(st.integers(1, u - 1))
            raw = None
            for a, b in ((b"\x00\x01\x00\x00", b"\x00\x00\x21\x41"), (b"\x21\x00\x00\x00", b"\x41\x00\x00\x00"),
                         (b"\x00\x00\x01\x00", b"\x00\x41\x00\x00")):
                u1 = (a * 2)[:u - k] + t[:k]
                u2 = t[k:] + (b * 2)[:k]
                try:
                    if len((u1 + u2).decode(codec)) == 2 and t not in (u1, u2):
                        raw = u1 + u2 + body[:u * draw(st.integers(0, 1))] + t
                        break
                except UnicodeDecodeError:
                    continue
            if raw is None:
                raw = b"\x41" + t
        else:
            raw = body
        filler = draw(st.sampled_from([b"\x00", b" ", b"\xff", t]))
        raw = (raw + filler * (nbytes + 4))[:nbytes]
        bits = refbits.bits_of(raw)
        return (bits + "0" * n)[:n]
    body = enc_text(nbytes)
    pad = draw(st.sampled_from([b"\x00", b" "]))
    if u > 1:
        pad = " ".encode(codec) if pad == b" " else b"\x00" * u
    raw = (body + pad * (nbytes + 4))[:nbytes]
    return (refbits.bits_of(raw) + "0" * n)[:n]


def finish_packet(doc, bits, mutation=("exact", 0), fix_length=True):
    """pad the synthesised bit stream to bytes, apply the length mutation and make the header's length field
    consistent with the byte count (own formatting) unless the document references it."""
    mode, k = mutation
    if mode == "trunc-bits":
        bits = bits[:max(48, len(bits) - k)]
    bits = bits + "0" * ((-len(bits)) % 8)
    data = bytearray(refbits.bytes_of_bits(bits))
    if mode == "trunc-bytes":
        data = data[:max(6, len(data) - k)]
    elif mode == "append":
        data += bytes([0xA5, 0x5A, 0x00, 0xFF, 0x01, 0x80, 0x7F, 0x10][:1] * k) if k else b""
    while len(data) < 7:
        data.append(0)
    if len(data) > 65542:
        data = data[:65542]
    if fix_length:
        data[4:6] = (len(data) - 7).to_bytes(2, "big")
    return bytes(data)


MUTATIONS = [("exact", 0)] * 30 + [("trunc-bits", 1), ("trunc-bits", 3), ("trunc-bits", 8), ("trunc-bits", 13),
                                  ("trunc-bytes", 1), ("trunc-bytes", 2), ("trunc-bytes", 5), ("append", 1),
                                  ("append", 2), ("append", 7)]


@st.composite
def gen_packet(draw, doc, mutate=True, model=None):
    """a packet steered through the document by construction; returns bytes"""
    m = model or xref.Model(doc)
    chooser = make_chooser(draw, doc)
    want = draw(st.sampled_from(["ok", "ok", "ok", "any"]))
    rewind = draw(st.booleans())
    for _ in range(4):
        res = xref.decode(m, b"", chooser=chooser, prefix_bits="", rewind_negative=rewind)
        if want == "any" or res.status == "ok":
            break
    bits = res.final_bits
    if len(bits) < 48:
        bits = (bits + "0" * 48)[:48]
    mutation = draw(st.sampled_from(MUTATIONS)) if mutate else ("exact", 0)
    if mutate and len(res.container_ends) >= 2 and draw(st.integers(0, 7)) == 0:
        # the producer dies exactly where an intermediate container of the inheritance path ends
        cut = res.container_ends[draw(st.integers(0, len(res.container_ends) - 2))]
        if cut >= 56:
            bits = bits[:cut]
            mutation = ("exact", 0)
    root = [c for c in doc["containers"] if c["name"] == doc["root"]][0]
    length_param = root["entries"][6][1]
    referenced = length_param in referenced_params(doc)
    pkt = finish_packet(doc, bits, mutation, fix_length=True)
    if referenced and draw(st.booleans()):
        # keep the drawn length field and make the byte count agree with it (pad / cut the tail)
        want = int(bits[32:48], 2) + 7
        body = bytearray(finish_packet(doc, bits, ("exact", 0), fix_length=False))
        if 7 <= want <= 4096:
            body = body[:want] + bytes(max(0, want - len(body)))
            body[4:6] = (want - 7).to_bytes(2, "big")
            pkt = bytes(body)
    return pkt
