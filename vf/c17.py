"""C17 – a loaded definition is a consistent object graph; broken documents fail at load."""
import copy
import io

from hypothesis import strategies as st

from vf import c16, xdoc, xgen
from vf.runner import exc_sig, hyp_run

PROPERTY = "C17"
LEVEL = "fault_enumeration"
RULE = ("Hypothesis generates documents (containers with nesting, reuse of nested containers and >= 2 inheritance "
        "levels) and, for each, EVERY applicable single-point corruption from the operator list is applied at EVERY "
        "applicable site (quick tier: every operator at every 6th site with a drawn phase): rename one parameterRef of an entry / one parameterTypeRef / one base containerRef / one "
        "nested containerRef to an undefined name; duplicate a parameter type / parameter / container unchanged or "
        "with one modelled attribute changed; delete a referenced type / parameter / container definition; introduce "
        "a base cycle, a nesting cycle, a mixed cycle, a self base and a self nesting. (References made from criteria "
        "and length specifications are not corrupted, as the property says.) The corrupted model is rendered by the "
        "harness's own XML writer and loaded. Plus byte-level mutation of renderings (Hypothesis-chosen splices). "
        "Oracle: uncorrupted (and 'container duplicated unchanged'): every entry `is` definition.parameters[name] / "
        "definition.containers[name], every parameter's type `is` definition.parameter_types[name], names unique, "
        "every base_container_name a key of containers, sorted(inheritors) == sorted(children naming the container) "
        "without duplicates. Corrupted: from_xtce raises an Exception (any subclass, RecursionError included); "
        "returning a definition is a violation. Mutated bytes: either an Exception or a definition satisfying the "
        "graph invariants. Non-trivial: the document has a nested reference and >= 2 inheritance levels; every "
        "corruption is one case, distinct by (document, operator, site).")
ASSUMPTIONS = ["a corruption of a duplicated definition alters a modelled attribute (abstract flag, an entry, a bit "
               "width, a description), not lexical noise",
               "an unchanged duplicate container is accepted by the statement (only conflicting duplicates are rejected)"]
EXHAUSTIVE = {"quick": False, "thorough": False}


def graph_problems(defn, doc=None):
    """invariants of a loaded definition; returns None or text"""
    from space_packet_parser.xtce import containers, parameters
    for name, p in defn.parameters.items():
        if p.name != name:
            return f"parameters[{name!r}] holds {p.name!r}"
        t = defn.parameter_types.get(p.parameter_type.name)
        if t is not p.parameter_type:
            return f"parameter {name}: its type object is not definition.parameter_types[{p.parameter_type.name!r}]"
    for name, t in defn.parameter_types.items():
        if t.name != name:
            return f"parameter_types[{name!r}] holds {t.name!r}"
    children = {}
    for name, c in defn.containers.items():
        if c.name != name:
            return f"containers[{name!r}] holds {c.name!r}"
        for e in c.entry_list:
            if isinstance(e, parameters.Parameter):
                if defn.parameters.get(e.name) is not e:
                    return f"entry {e.name} of container {name} is not definition.parameters[{e.name!r}]"
            elif isinstance(e, containers.SequenceContainer):
                if defn.containers.get(e.name) is not e:
                    return f"nested container {e.name} in {name} is not definition.containers[{e.name!r}]"
            else:
                return f"entry of unexpected type {type(e).__name__} in {name}"
        if c.base_container_name is not None:
            if c.base_container_name not in defn.containers:
                return f"container {name}: base {c.base_container_name!r} is not a key of definition.containers"
            children.setdefault(c.base_container_name, []).append(name)
    for name, c in defn.containers.items():
        if sorted(c.inheritors) != sorted(children.get(name, [])):
            return (f"container {name}: inheritors {c.inheritors} but the containers naming it as base are "
                    f"{sorted(children.get(name, []))}")
    if doc is not None:
        want = sorted(c["name"] for c in doc["containers"])
        if sorted(defn.containers) != sorted(set(want)):
            return f"containers {sorted(defn.containers)} but the document defines {want}"
    return None


def load_bytes(data, opts, root):
    from space_packet_parser.xtce import definitions
    c16.reset_process_state()
    return definitions.XtcePacketDefinition.from_xtce(io.BytesIO(data), xtce_ns_prefix=xdoc.load_prefix(opts),
                                                      root_container_name=root)


# ---- corruption operators: each yields (site label, corrupted doc) ------------------------------------

def _copy(doc):
    return copy.deepcopy(doc)


def corruptions(doc):
    used_params = {n for c in doc["containers"] for k, n in c["entries"] if k == "p"}
    used_types = {p["type"] for p in doc["params"] if p["name"] in used_params}
    names = {c["name"]: i for i, c in enumerate(doc["containers"])}
    for ci, c in enumerate(doc["containers"]):
        for ei, (k, n) in enumerate(c["entries"]):
            d = _copy(doc)
            d["containers"][ci]["entries"][ei][1] = "UNDEFINED_" + n
            yield ("dangling-parameterRef" if k == "p" else "dangling-nested-containerRef", f"{c['name']}[{ei}]", d)
        if c.get("base"):
            d = _copy(doc)
            d["containers"][ci]["base"] = "UNDEFINED_" + c["base"]
            yield "dangling-base-containerRef", c["name"], d
    for pi, p in enumerate(doc["params"]):
        if p["name"] in used_params:
            d = _copy(doc)
            d["params"][pi]["type"] = "UNDEFINED_" + p["type"]
            yield "dangling-parameterTypeRef", p["name"], d
            d = _copy(doc)
            del d["params"][pi]
            yield "deleted-parameter", p["name"], d
        d = _copy(doc)
        d["params"].insert(pi + 1, copy.deepcopy(p))
        yield "duplicate-parameter-unchanged", p["name"], d
        d = _copy(doc)
        q = copy.deepcopy(p)
        q["short"] = (q.get("short") or "") + " changed"
        d["params"].append(q)
        yield "duplicate-parameter-changed", p["name"], d
    for ti, t in enumerate(doc["types"]):
        if t["name"] in used_types:
            d = _copy(doc)
            del d["types"][ti]
            yield "deleted-parameter-type", t["name"], d
        d = _copy(doc)
        d["types"].insert(ti + 1, copy.deepcopy(t))
        yield "duplicate-type-unchanged", t["name"], d
        d = _copy(doc)
        q = copy.deepcopy(t)
        q["unit"] = (q.get("unit") or "") + "x"
        if q["enc"]["k"] == "int":
            q["enc"]["bits"] += 1
        d["types"].append(q)
        yield "duplicate-type-changed", t["name"], d
    referenced = {c["base"] for c in doc["containers"] if c.get("base")} | \
        {n for c in doc["containers"] for k, n in c["entries"] if k == "c"}
    for ci, c in enumerate(doc["containers"]):
        if c["name"] in referenced:
            d = _copy(doc)
            del d["containers"][ci]
            yield "deleted-container", c["name"], d
        d = _copy(doc)
        d["containers"].append(copy.deepcopy(c))
        yield "duplicate-container-unchanged", c["name"], d
        for what in ("abstract", "entry", "short"):
            d = _copy(doc)
            q = copy.deepcopy(c)
            if what == "abstract":
                q["abstract"] = not q.get("abstract")
            elif what == "entry":
                if not q["entries"]:
                    continue
                q["entries"] = q["entries"][:-1]
            else:
                q["short"] = (q.get("short") or "") + " changed"
            d["containers"].insert(ci + 1 if what != "short" else 0, q)
            yield f"duplicate-container-changed-{what}", c["name"], d
        # cycles
        d = _copy(doc)
        d["containers"][ci]["base"] = c["name"]
        d["containers"][ci]["match"] = d["containers"][ci].get("match") or None
        yield "self-base", c["name"], d
        d = _copy(doc)
        d["containers"][ci]["entries"].append(["c", c["name"]])
        yield "self-nesting", c["name"], d
        if c.get("base"):
            bi = names[c["base"]]
            if not doc["containers"][bi].get("base"):
                d = _copy(doc)
                d["containers"][bi]["base"] = c["name"]
                yield "base-cycle", f"{c['name']}<->{c['base']}", d
            d = _copy(doc)
            d["containers"][bi]["entries"].append(["c", c["name"]])
            d["containers"][ci]["entries"].append(["c", c["base"]])
            yield "nesting-cycle", f"{c['name']}<->{c['base']}", d
            d = _copy(doc)
            d["containers"][bi]["entries"].append(["c", c["name"]])
            yield "mixed-cycle", f"{c['base']} nests its inheritor {c['name']}", d


ACCEPTED = {"duplicate-container-unchanged"}


def nest_inheriting(doc):
    """doc with one inheriting container X additionally referenced by a ContainerRefEntry of a container Y that is
    neither X, an ancestor or descendant of X by inheritance, nor nested in / nesting X (so no cycle arises)"""
    by = {c["name"]: c for c in doc["containers"]}

    def ancestors(n):
        out = set()
        while by[n].get("base") and by[n]["base"] in by and by[n]["base"] not in out:
            n = by[n]["base"]
            out.add(n)
        return out

    def nested_closure(n, seen=None):
        seen = seen if seen is not None else set()
        for k, m in by[n]["entries"]:
            if k == "c" and m in by and m not in seen:
                seen.add(m)
                nested_closure(m, seen)
        return seen
    for x in doc["containers"]:
        if not x.get("base"):
            continue
        for y in doc["containers"]:
            if y["name"] == x["name"] or y["name"] in ancestors(x["name"]) or x["name"] in ancestors(y["name"]):
                continue
            if y["name"] in nested_closure(x["name"]) or x["name"] in nested_closure(y["name"]):
                continue
            # x's own ancestors must not (transitively) nest y either
            if any(y["name"] in nested_closure(a) or a in nested_closure(y["name"]) for a in ancestors(x["name"])):
                continue
            d = _copy(doc)
            for c in d["containers"]:
                if c["name"] == y["name"]:
                    c["entries"].append(["c", x["name"]])
            return d
    return None


def features(doc):
    by = {c["name"]: c for c in doc["containers"]}
    nested = any(k == "c" for c in doc["containers"] for k, _ in c["entries"])
    deep = any(by[c["base"]].get("base") for c in doc["containers"] if c.get("base") and c["base"] in by)
    users = {}
    for c in doc["containers"]:
        for k, n in c["entries"]:
            if k == "c":
                users.setdefault(n, set()).add(c["name"])
    return nested, deep, any(len(u) >= 2 for u in users.values())


def check_case(ctx, case):
    doc, opts = case["doc"], case["opts"]
    nested, deep, reused = features(doc)
    ctx.sample("doc", {"containers": [(c["name"], c.get("base"), [n for k, n in c["entries"] if k == "c"]) for c in
                                      doc["containers"]][:10], "opts_ns": opts["ns"]})
    only = case.get("only")
    if only is None:
        ctx.count()
        ctx.cls("uncorrupted")
        if nested and deep:
            ctx.nontrivial(("ok", doc))
            ctx.cls("nontrivial document")
        if reused:
            ctx.cls("document reuses a nested container")
        try:
            d = load_bytes(xdoc.render(doc, opts), opts, doc["root"])
        except Exception as e:
            return ctx.fail("load-raised", f"uncorrupted document: {e!r} [{exc_sig(e)}]", case, bucket="load-raised:" + exc_sig(e))
        g = graph_problems(d, doc)
        if g:
            return ctx.fail("graph", f"uncorrupted document: {g}", case, bucket="graph:" + g.split(":")[0][:30])
    seen_ops = {}
    if only is None:
        # a legal variation: an inheriting container additionally nested (by reference) in an unrelated container
        var = nest_inheriting(doc)
        if var is not None:
            ctx.count()
            ctx.cls("variation: inheriting container nested elsewhere")
            try:
                d = load_bytes(xdoc.render(var, opts), opts, doc["root"])
            except Exception as e:
                return ctx.fail("load-raised", f"document with an inheriting container nested elsewhere: {e!r} "
                                               f"[{exc_sig(e)}]", dict(case, doc=var), bucket="load-raised-variation:" + exc_sig(e))
            g = graph_problems(d, var)
            if g:
                return ctx.fail("graph", f"document with an inheriting container nested elsewhere: {g}",
                                dict(case, doc=var), bucket="graph:variation")
    for op, site, bad in corruptions(doc):
        if only is not None and only != [op, site]:
            continue
        if only is None and case.get("per_op"):
            # quick tier: a drawn subset of the sites of every operator (all operators, not all sites)
            seen_ops[op] = seen_ops.get(op, 0) + 1
            if (seen_ops[op] + case.get("phase", 0)) % case["per_op"] != 0:
                continue
        ctx.count()
        ctx.cls("corruption: " + op)
        if nested and deep:
            ctx.nontrivial((op, site, doc["containers"]))
        try:
            data = xdoc.render(bad, opts)
        except Exception as e:  # the harness's renderer does not validate; anything here is a harness problem
            raise
        try:
            d = load_bytes(data, opts, doc["root"])
        except RecursionError:
            ctx.cls("rejected by RecursionError")
            continue
        except Exception:  # noqa: BLE001 - any Exception is a rejection
            continue
        if op in ACCEPTED:
            g = graph_problems(d, doc)
            if g:
                return ctx.fail("graph", f"after {op} at {site}: {g}", dict(case, only=[op, site]), bucket="graph:" + op)
            continue
        return ctx.fail("corruption-accepted", f"{op} at {site}: from_xtce returned a definition "
                                               f"(containers {list(d.containers)[:8]})", dict(case, only=[op, site]),
                        bucket="corruption-accepted:" + op)
    return None


def check_mutated(ctx, case):
    """byte-level mutation: either an Exception or a consistent graph"""
    doc, opts = case["doc"], case["opts"]
    data = bytearray(xdoc.render(doc, opts))
    for m in case["mutations"]:
        a = m[1] % (len(data) + 1)
        b = min(len(data), a + m[2] % 40)
        if m[0] == "delete":
            del data[a:b]
        elif m[0] == "duplicate":
            data[a:a] = data[a:b]
        elif m[0] == "flip" and data:
            data[a % len(data)] ^= 1 << (m[2] % 8)
        elif m[0] == "swap":
            c = m[3] % (len(data) + 1)
            chunk = bytes(data[a:b])
            del data[a:b]
            c = min(c, len(data))
            data[c:c] = chunk
        elif m[0] == "replace":
            tok = [b"parameterRef", b"containerRef", b"name", b"true", b"false", b"parameterTypeRef", b"abstract"]
            t = tok[m[2] % len(tok)]
            i = bytes(data).find(t, a)
            if i >= 0:
                data[i:i + len(t)] = tok[m[3] % len(tok)]
    ctx.count()
    ctx.nontrivial((bytes(data)))
    ctx.sample("mutated bytes", {"mutations": case["mutations"], "size": len(data)})
    import warnings
    try:
        with warnings.catch_warnings():
            warnings.simplefilter("ignore")
            d = load_bytes(bytes(data), opts, doc["root"])
    except Exception:  # noqa: BLE001
        ctx.cls("mutated bytes: rejected")
        return None
    ctx.cls("mutated bytes: loaded")
    g = graph_problems(d)
    if g:
        return ctx.fail("graph", f"mutated document loaded with an inconsistent graph: {g}", case, bucket="graph:mutated")
    return None


@st.composite
def gen_case(draw, per_op=0):
    doc = draw(xgen.gen_doc(draw(st.sampled_from(["trees", "trees", "full"]))))
    case = {"doc": doc, "opts": draw(c16.gen_opts(noisy=False))}
    if per_op:
        case["per_op"] = per_op
        case["phase"] = draw(st.integers(0, per_op - 1))
    return case


@st.composite
def gen_mutated(draw):
    case = draw(gen_case())
    case["mutations"] = draw(st.lists(st.tuples(st.sampled_from(["delete", "duplicate", "flip", "swap", "replace"]),
                                                st.integers(0, 10 ** 6), st.integers(0, 10 ** 6), st.integers(0, 10 ** 6)),
                                      min_size=1, max_size=4).map(lambda l: [list(x) for x in l]))
    return case


def part_corruptions(ctx, examples, per_op=0):
    hyp_run(ctx, gen_case(per_op), check_case, examples, shrink_budget=40 if ctx.tier == "quick" else 400, rounds=3)


def part_mutated(ctx, examples):
    hyp_run(ctx, gen_mutated(), check_mutated, examples, shrink_budget=100 if ctx.tier == "quick" else 1000, rounds=2)


PARTS = {"corruptions": part_corruptions, "mutated": part_mutated}
REPLAY = {"corruptions": check_case, "mutated": check_mutated}
KNOWN = {}
FLOORS = {"nontrivial document": ("uncorrupted", 0.15), "document reuses a nested container": ("uncorrupted", 0.02),
          "corruption: nesting-cycle": ("uncorrupted", 0.1), "corruption: base-cycle": ("uncorrupted", 0.04)}


def plan(tier, seed):
    q = tier == "quick"
    if q:
        tasks = [("corruptions", {"examples": 20, "per_op": 6}) for _ in range(12)]
        tasks += [("mutated", {"examples": 150}) for _ in range(4)]
    else:
        # every applicable corruption of every document: about an hour on 16 cores
        tasks = [("corruptions", {"examples": 300, "per_op": 0}) for _ in range(16)]
        tasks += [("mutated", {"examples": 4000}) for _ in range(4)]
    return tasks
