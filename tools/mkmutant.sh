#!/bin/sh
# usage: tools/mkmutant.sh <out.patch> <file-relative-to-repo> <old> <new> [<old2> <new2> ...]
# Makes a unified diff (a/ b/ prefixes, -p1 from the repo root) replacing exactly one occurrence of each OLD by NEW.
# \n and \t escapes in OLD/NEW are interpreted.
set -e
out="$1"; f="$2"; shift 2
tmp=$(mktemp -d /tmp/mkmut.XXXXXX)
mkdir -p "$tmp/a/$(dirname "$f")" "$tmp/b/$(dirname "$f")"
cp "/repo/$f" "$tmp/a/$f"
/venv/bin/python - "$tmp/a/$f" "$tmp/b/$f" "$@" <<'PY'
import sys
s = open(sys.argv[1]).read()
args = sys.argv[3:]
assert len(args) % 2 == 0 and args
for i in range(0, len(args), 2):
    old = args[i].encode().decode("unicode_escape")
    new = args[i + 1].encode().decode("unicode_escape")
    assert s.count(old) == 1, f"OLD #{i // 2 + 1} occurs {s.count(old)} times"
    s = s.replace(old, new)
compile(s, sys.argv[2], "exec")
open(sys.argv[2], "w").write(s)
PY
here=$(pwd)
(cd "$tmp" && diff -u "a/$f" "b/$f" > "$here/$out") || true
rm -rf "$tmp"
echo "wrote $out"
