"""Reference bit-level decoding, written over strings of '0'/'1' characters and exact rationals.

Deliberately a different implementation style from the library (no shifts, masks or struct).
"""
from fractions import Fraction
import math


def bits_of(buf: bytes) -> str:
    return "".join(f"{b:08b}" for b in buf)


def bytes_of_bits(bits: str) -> bytes:
    """bits must be a whole number of bytes"""
    assert len(bits) % 8 == 0
    return bytes(int(bits[i:i + 8], 2) for i in range(0, len(bits), 8))


def reverse_bytes(bits: str) -> str:
    assert len(bits) % 8 == 0
    groups = [bits[i:i + 8] for i in range(0, len(bits), 8)]
    return "".join(reversed(groups))


def ref_int(bits: str, sign: str, order: str) -> int:
    """sign in {'unsigned', 'signed', 'twosComplement'}; order 'mostSignificantByteFirst' or
    'leastSignificantByteFirst' (only meaningful for whole-byte widths)."""
    if order == "leastSignificantByteFirst":
        bits = reverse_bytes(bits)
    v = int(bits, 2)
    if sign != "unsigned" and bits[0] == "1":
        v -= 2 ** len(bits)
    return v


_EBITS = {16: 5, 32: 8, 64: 11}


def ref_ieee(bits: str, order: str = "mostSignificantByteFirst") -> float:
    if order == "leastSignificantByteFirst":
        bits = reverse_bytes(bits)
    n = len(bits)
    eb = _EBITS[n]
    fb = n - 1 - eb
    neg = bits[0] == "1"
    e = int(bits[1:1 + eb], 2)
    f = int(bits[1 + eb:], 2)
    bias = 2 ** (eb - 1) - 1
    if e == 2 ** eb - 1:
        if f:
            return math.nan
        return -math.inf if neg else math.inf
    if e == 0:
        val = Fraction(f, 2 ** fb) * Fraction(2) ** (1 - bias)
    else:
        val = (1 + Fraction(f, 2 ** fb)) * Fraction(2) ** (e - bias)
    x = val.numerator / val.denominator  # exact: every such value is a double
    assert Fraction(x) == val
    return -x if neg else x


def ieee_class(bits: str, order: str = "mostSignificantByteFirst") -> str:
    if order == "leastSignificantByteFirst":
        bits = reverse_bytes(bits)
    eb = _EBITS[len(bits)]
    e = int(bits[1:1 + eb], 2)
    f = int(bits[1 + eb:], 2)
    if e == 2 ** eb - 1:
        return "nan" if f else "inf"
    if e == 0:
        return "subnormal" if f else "zero"
    return "normal"


def ref_1750a(bits: str, order: str = "mostSignificantByteFirst") -> float:
    assert len(bits) == 32
    if order == "leastSignificantByteFirst":
        bits = reverse_bytes(bits)
    m = int(bits[:24], 2)
    if bits[0] == "1":
        m -= 2 ** 24
    e = int(bits[24:], 2)
    if bits[24] == "1":
        e -= 2 ** 8
    val = Fraction(m) * Fraction(2) ** (e - 23)
    x = val.numerator / val.denominator
    assert Fraction(x) == val
    return x


def same_float(a, b) -> bool:
    """bit-for-bit equality of doubles except that any NaN equals any NaN"""
    if isinstance(a, bool) or isinstance(b, bool):
        return False
    if not isinstance(a, float) or not isinstance(b, float):
        return False
    if a != a or b != b:
        return a != a and b != b
    return a == b and math.copysign(1.0, a) == math.copysign(1.0, b)


def jfloat(x):
    """JSON-safe rendering of a float for replay files"""
    if x != x:
        return "nan"
    if x in (math.inf, -math.inf):
        return "inf" if x > 0 else "-inf"
    return x
