"""Shared runner: shards, contexts, Hypothesis wrapper, evidence, known findings, replay.

A property module (vf/cNN.py) exposes

    PROPERTY = "C03"
    LEVEL = "exploration"                  # evidence level
    RULE = "..."                           # how cases are generated / what is non-trivial
    ASSUMPTIONS = [...]
    def plan(tier, seed) -> list[(part_name, kwargs)]      # one entry per shard
    PARTS = {part_name: fn(ctx, **kwargs)}                 # runs a shard, records into ctx
    REPLAY = {part_name: fn(ctx, case)}                    # re-checks one case (no Hypothesis)
    KNOWN = {predicate_name: fn(case, violation) -> bool}  # signatures of known findings
    FLOORS = {class_label: minimum fraction of evaluations}   (optional, generator health)

Exit codes of run_property: 0 held, 1 violation, 2 harness error / inconclusive.
"""
from __future__ import annotations

import hashlib
import json
import multiprocessing
import os
import signal
import sys
import time
import traceback

VERIF = os.path.dirname(os.path.dirname(os.path.abspath(__file__)))
REPO = os.environ.get("VERIF_REPO", "/repo")
MAX_SAMPLES_PER_LABEL = 3
NPROC = int(os.environ.get("VERIF_NPROC", "16"))


# ----------------------------------------------------------------------------------------------
# helpers


def canon(obj) -> str:
    return json.dumps(obj, sort_keys=True, separators=(",", ":"), default=_json_default)


def _json_default(o):
    if isinstance(o, (bytes, bytearray)):
        return {"__hex__": bytes(o).hex()}
    if isinstance(o, (set, frozenset)):
        return sorted(o)
    if isinstance(o, tuple):
        return list(o)
    return repr(o)


def h64(obj) -> int:
    if not isinstance(obj, (str, bytes)):
        obj = canon(obj)
    if isinstance(obj, str):
        obj = obj.encode()
    return int.from_bytes(hashlib.sha1(obj).digest()[:8], "big")


def short(obj, limit=400):
    """Abbreviate a case for the samples list of the evidence file."""
    if isinstance(obj, dict):
        return {k: short(v, limit) for k, v in list(obj.items())[:40]}
    if isinstance(obj, (list, tuple)):
        out = [short(v, limit) for v in obj[:24]]
        if len(obj) > 24:
            out.append(f"... ({len(obj)} items)")
        return out
    if isinstance(obj, (bytes, bytearray)):
        obj = bytes(obj).hex()
    if isinstance(obj, str) and len(obj) > limit:
        return obj[:limit] + f"... ({len(obj)} chars)"
    if isinstance(obj, float) and obj != obj:
        return "nan"
    if isinstance(obj, float) and obj in (float("inf"), float("-inf")):
        return repr(obj)
    return obj


def lib_frame(exc: BaseException) -> str:
    """Innermost space_packet_parser frame of an exception, as 'file:function'."""
    tb = exc.__traceback__
    best = "?"
    while tb is not None:
        fn = tb.tb_frame.f_code.co_filename
        if "space_packet_parser" in fn:
            best = f"{os.path.basename(fn)}:{tb.tb_frame.f_code.co_name}"
        tb = tb.tb_next
    return best


def exc_sig(exc: BaseException) -> str:
    return f"{type(exc).__name__}@{lib_frame(exc)}"


class Fail(Exception):
    """Raised inside a Hypothesis-driven check to signal a property violation."""

    def __init__(self, violation):
        super().__init__(violation["kind"])
        self.violation = violation


class HarnessError(Exception):
    pass


class StopShrinking(BaseException):
    """aborts Hypothesis's shrink phase once the call budget is used up (the smallest failing case seen so far
    is already recorded); a BaseException so that Hypothesis does not treat it as a test failure"""


# ----------------------------------------------------------------------------------------------
# known findings


def load_known(prop: str):
    path = os.path.join(VERIF, "known_findings.json")
    if not os.path.exists(path):
        return []
    with open(path) as f:
        data = json.load(f)
    return [k for k in data.get("open", []) if k["property"] == prop]


# ----------------------------------------------------------------------------------------------
# per-shard context


class Ctx:
    def __init__(self, prop, tier, seed, shard, part, known=None, predicates=None, replaying=False):
        self.prop, self.tier, self.seed, self.shard, self.part = prop, tier, seed, shard, part
        self.evaluations = 0
        self.nontrivial_hashes = set()
        self.nontrivial_enum = 0  # distinct by construction (enumerations)
        self.classes = {}
        self.samples = {}
        self.violations = []
        self.known_hits = {}
        self.excluded_known = 0
        self.suppressed = set()  # buckets already reported in this shard
        self.suppressed_hits = 0
        self.exhaustive_domains = {}
        self.notes = []
        self.known = known or []
        self.predicates = predicates or {}
        self.replaying = replaying
        self.raise_on_fail = False

    # -- counting ---------------------------------------------------------------------------
    def count(self, n=1):
        self.evaluations += n

    def nontrivial(self, key):
        self.nontrivial_hashes.add(h64(key))

    def nontrivial_distinct(self, n=1):
        self.nontrivial_enum += n

    def cls(self, label, n=1):
        self.classes[label] = self.classes.get(label, 0) + n

    def sample(self, label, case):
        lst = self.samples.setdefault(label, [])
        if len(lst) < MAX_SAMPLES_PER_LABEL:
            lst.append(short(case))

    def domain(self, name, size):
        self.exhaustive_domains[name] = self.exhaustive_domains.get(name, 0) + size

    def note(self, text):
        if text not in self.notes:
            self.notes.append(text)

    # -- violations -------------------------------------------------------------------------
    def match_known(self, case, violation):
        for k in self.known:
            pred = self.predicates.get(k["predicate"])
            if pred is None:
                continue
            try:
                if pred(case, violation):
                    return k
            except Exception:  # a predicate must never hide or create a verdict
                continue
        return None

    def fail(self, kind, detail, case, bucket=None):
        """Record a violation of the property. Returns normally if it is a known finding or
        an already reported bucket; raises Fail under Hypothesis (so it shrinks)."""
        violation = {"kind": kind, "detail": str(detail)[:2000], "bucket": bucket or kind,
                     "part": self.part, "case": case}
        k = self.match_known(case, violation)
        if k is not None:
            self.excluded_known += 1
            if k["id"] not in self.known_hits:
                self.known_hits[k["id"]] = {"what": k["what"], "n": 0, "example": short(case)}
            self.known_hits[k["id"]]["n"] += 1
            return False
        if violation["bucket"] in self.suppressed:
            self.suppressed_hits += 1
            return False
        if self.raise_on_fail:
            raise Fail(violation)
        self.violations.append(violation)
        self.suppressed.add(violation["bucket"])
        return True

    def result(self):
        return {
            "part": self.part, "shard": self.shard,
            "evaluations": self.evaluations,
            "nontrivial_hashes": self.nontrivial_hashes,
            "nontrivial_enum": self.nontrivial_enum,
            "classes": self.classes, "samples": self.samples,
            "violations": self.violations, "known_hits": self.known_hits,
            "excluded_known": self.excluded_known, "suppressed_hits": self.suppressed_hits,
            "domains": self.exhaustive_domains, "notes": self.notes,
        }


# ----------------------------------------------------------------------------------------------
# Hypothesis wrapper


def _make_body(ctx, check, shrink_budget):
    state = {"first": None, "last": None, "calls_after": 0, "last_json": None}

    def body(case):
        if state["first"] is not None:
            state["calls_after"] += 1
            if state["calls_after"] > shrink_budget:
                raise StopShrinking()  # budget (a count of calls, never time) exhausted: keep the best case so far
        ctx.raise_on_fail = True
        try:
            check(ctx, case)
        except Fail as f:
            if state["first"] is None:
                state["first"] = f.violation
            if f.violation["bucket"] == state["first"]["bucket"]:
                state["last"] = f.violation
                state["last_json"] = canon(case)
                raise
            # a different bucket surfaced while shrinking: keep shrinking the first one
            return
        finally:
            ctx.raise_on_fail = False

    return body, state


def hyp_run(ctx: Ctx, strategy, check, max_examples, *, shrink_budget=None, rounds=3, label=""):
    """Drive `check(ctx, case)` with cases from `strategy`.

    `check` records into ctx and calls ctx.fail(...) for violations.  The first failing bucket
    is shrunk (bounded by a *count* of further calls, never by time), recorded with its minimal
    case, its bucket suppressed, and the search is restarted (up to `rounds` times) so that a
    shallow defect does not hide what lies behind it.
    """
    import hypothesis
    from hypothesis import HealthCheck, Phase, given, settings

    if shrink_budget is None:
        shrink_budget = 400 if ctx.tier == "quick" else 4000
    base_seed = (ctx.seed * 1000 + ctx.shard) * 10 + 1
    per_round = max_examples
    for rnd in range(rounds):
        body, state = _make_body(ctx, check, shrink_budget)

        test = given(strategy)(body)
        test = settings(
            max_examples=per_round, database=None, deadline=None, derandomize=False,
            report_multiple_bugs=False, print_blob=False,
            suppress_health_check=list(HealthCheck),
            phases=[Phase.generate, Phase.shrink],
        )(test)
        test = hypothesis.seed(base_seed + rnd)(test)
        try:
            test()
        except (Fail, StopShrinking):
            pass
        except hypothesis.errors.Flaky as e:  # pragma: no cover - reported as harness problem
            if state["last"] is None:
                raise HarnessError(f"flaky check in {ctx.prop}/{ctx.part}: {e}") from e
        except BaseException as e:
            if state["last"] is None:
                raise
            # Hypothesis may wrap the final failure (e.g. FlakyFailure when the budget starved
            # the shrinker); we still have the recorded minimal case.
            ctx.note(f"hypothesis ended with {type(e).__name__} after a recorded failure")
        if state["last"] is None:
            return
        v = state["last"]
        ctx.violations.append(v)
        ctx.suppressed.add(v["bucket"])
        per_round = max(50, max_examples // 2)


# ----------------------------------------------------------------------------------------------
# parent side


def _worker(args):
    modname, prop, tier, seed, shard, part, kwargs, known = args
    import importlib

    os.environ["PYTHONHASHSEED"] = "0"
    mod = importlib.import_module(modname)
    ctx = Ctx(prop, tier, seed, shard, part, known=known, predicates=getattr(mod, "KNOWN", {}))
    t0 = time.time()
    try:
        mod.PARTS[part](ctx, **kwargs)
        res = ctx.result()
        res["error"] = None
    except BaseException as e:  # harness error – never a violation
        res = ctx.result()
        res["error"] = "".join(traceback.format_exception(type(e), e, e.__traceback__))[-6000:]
    res["wall"] = time.time() - t0
    return res


def _sha(obj):
    return hashlib.sha1(canon(obj).encode()).hexdigest()[:16]


def write_replay(prop, violation):
    d = os.path.join(VERIF, "replays", prop)
    if os.environ.get("VERIF_NO_EVIDENCE"):
        d = os.path.join(VERIF, ".scratch", "replays", prop)
    os.makedirs(d, exist_ok=True)
    body = {"property": prop, "part": violation["part"], "kind": violation["kind"],
            "detail": violation["detail"], "case": violation["case"]}
    path = os.path.join(d, _sha([violation["part"], violation["case"]]) + ".json")
    with open(path, "w") as f:
        f.write(json.dumps(body, indent=1, sort_keys=True, default=_json_default))
    return os.path.relpath(path, VERIF)


def validate_evidence(ev):
    schema_path = "/root/.vp/EVIDENCE.schema.json"
    local = os.path.join(VERIF, "vf", "EVIDENCE.schema.json")
    path = local if os.path.exists(local) else schema_path
    try:
        import jsonschema
    except ImportError:
        jsonschema = None
    if jsonschema is not None and os.path.exists(path):
        with open(path) as f:
            jsonschema.validate(ev, json.load(f))
        return
    cov = ev["coverage"]
    assert isinstance(cov["evaluations"], int) and cov["evaluations"] >= 1
    assert isinstance(cov["distinct_nontrivial"], int) and cov["distinct_nontrivial"] >= 2
    assert isinstance(cov["rule"], str) and len(cov["samples"]) >= 1


def run_known_replays(mod, prop, tier, seed, known):
    """Seconds-long replay tier: saved inputs of open findings (must still match their
    signature) and of fixed findings (must pass)."""
    lines, violations = [], []
    base = os.path.join(VERIF, "replays", "regress", prop)
    if not os.path.isdir(base):
        return lines, violations, 0
    n = 0
    for name in sorted(os.listdir(base)):
        if not name.endswith(".json"):
            continue
        with open(os.path.join(base, name)) as f:
            rp = json.load(f)
        ctx = Ctx(prop, tier, seed, 0, rp["part"], known=known, predicates=getattr(mod, "KNOWN", {}),
                  replaying=True)
        mod.REPLAY[rp["part"]](ctx, rp["case"])
        n += 1
        for v in ctx.violations:
            v["replay_of"] = name
            violations.append(v)
        for kid, hit in ctx.known_hits.items():
            lines.append((kid, hit["what"]))
    return lines, violations, n


def run_property(modname, tier, seed):
    """Every temporary file of a run (workers included: they exit without running atexit handlers) lives under one
    directory that the parent removes."""
    import shutil
    import tempfile
    rundir = tempfile.mkdtemp(prefix="vf_run_")
    old = tempfile.tempdir
    tempfile.tempdir = rundir
    try:
        return _run_property(modname, tier, seed)
    finally:
        tempfile.tempdir = old
        shutil.rmtree(rundir, ignore_errors=True)


def _run_property(modname, tier, seed):
    import importlib

    t0 = time.time()
    mod = importlib.import_module(modname)
    prop = mod.PROPERTY
    known = load_known(prop)
    tasks = []
    for shard, (part, kwargs) in enumerate(mod.plan(tier, seed)):
        tasks.append((modname, prop, tier, seed, shard, part, kwargs, known))

    watchdog = int(os.environ.get("VERIF_WATCHDOG_S", "1500" if tier == "quick" else "14000"))
    results = []
    ctxm = multiprocessing.get_context("fork")
    nproc = max(1, min(NPROC, len(tasks)))
    pool = ctxm.Pool(nproc, maxtasksperchild=1)
    try:
        async_res = [pool.apply_async(_worker, (t,)) for t in tasks]
        deadline = time.time() + watchdog
        for ar in async_res:
            remaining = max(1.0, deadline - time.time())
            try:
                results.append(ar.get(timeout=remaining))
            except multiprocessing.TimeoutError:
                print(f"HARNESS-INCONCLUSIVE property={prop} watchdog of {watchdog}s hit", flush=True)
                pool.terminate()
                return 2
    finally:
        pool.terminate()
        pool.join()

    errors = [r for r in results if r["error"]]
    # merge
    evaluations = sum(r["evaluations"] for r in results)
    hashes = set()
    for r in results:
        hashes |= r["nontrivial_hashes"]
    distinct = len(hashes) + sum(r["nontrivial_enum"] for r in results)
    classes, samples, domains, notes = {}, {}, {}, []
    for r in results:
        for k, v in r["classes"].items():
            classes[k] = classes.get(k, 0) + v
        for k, v in r["samples"].items():
            lst = samples.setdefault(k, [])
            for s in v:
                if len(lst) < MAX_SAMPLES_PER_LABEL:
                    lst.append(s)
        for k, v in r["domains"].items():
            domains[k] = domains.get(k, 0) + v
        for n_ in r["notes"]:
            if n_ not in notes:
                notes.append(n_)
    violations = []
    seen_buckets = set()
    for r in results:
        for v in r["violations"]:
            if v["bucket"] in seen_buckets:
                continue
            seen_buckets.add(v["bucket"])
            violations.append(v)
    known_hits = {}
    for r in results:
        for kid, hit in r["known_hits"].items():
            if kid not in known_hits:
                known_hits[kid] = dict(hit)
            else:
                known_hits[kid]["n"] += hit["n"]

    # replay tier
    rp_lines, rp_viol, n_replays = [], [], 0
    try:
        rp_lines, rp_viol, n_replays = run_known_replays(mod, prop, tier, seed, known)
    except BaseException as e:
        errors.append({"error": "replay tier: " + "".join(
            traceback.format_exception(type(e), e, e.__traceback__))[-4000:], "part": "replays"})
    for kid, what in rp_lines:
        if kid not in known_hits:
            known_hits[kid] = {"what": what, "n": 1, "example": "replay"}
    for v in rp_viol:
        if v["bucket"] not in seen_buckets:
            seen_buckets.add(v["bucket"])
            violations.append(v)

    # generator health floors
    floor_problems = []
    floors = getattr(mod, "FLOORS", {})
    if floors and all(isinstance(v, dict) for v in floors.values()):
        floors = floors.get(tier, {})
    for label, (denom_label, frac) in floors.items():
        have = classes.get(label, 0)
        denom = classes.get(denom_label, 0) if denom_label else evaluations
        if have < frac * denom and not violations:
            floor_problems.append(f"class '{label}' has {have} of {denom} '{denom_label or 'evaluations'}', "
                                  f"floor {frac:.3f}")

    sample_list = []
    for k in sorted(samples):
        for s in samples[k]:
            sample_list.append({"class": k, "case": s})
    sample_list = sample_list[:40]

    ev = {
        "property_id": prop,
        "tier": tier,
        "seed": int(seed),
        "level": mod.LEVEL,
        "coverage": {
            "evaluations": int(evaluations),
            "distinct_nontrivial": int(distinct),
            "rule": mod.RULE,
            "samples": sample_list or [{"class": "none", "case": None}],
            "class_distribution": dict(sorted(classes.items())),
            "exhaustive": bool(getattr(mod, "EXHAUSTIVE", {}).get(tier, False)),
            "exhaustive_subdomains": domains,
            "excluded_known": sum(r["excluded_known"] for r in results),
            "suppressed_duplicates": sum(r["suppressed_hits"] for r in results),
            "known_findings_seen": {k: v["n"] for k, v in known_hits.items()},
            "replays_run": n_replays,
            "shards": len(tasks),
            "notes": notes,
            "shard_wall_s": [round(r["wall"], 2) for r in results],
        },
        "assumptions": list(mod.ASSUMPTIONS),
        "wall_s": round(time.time() - t0, 3),
        "violations": len(violations),
    }

    os.makedirs(os.path.join(VERIF, "evidence"), exist_ok=True)
    ev_path = os.path.join(VERIF, "evidence", f"{prop}.json")
    ev_ok = True
    try:
        validate_evidence(ev)
    except Exception as e:  # schema-invalid evidence is a harness error
        ev_ok = False
        print(f"HARNESS-ERROR property={prop} evidence does not validate: {e}", flush=True)
    if not os.environ.get("VERIF_NO_EVIDENCE"):  # set only by the mutation self-test
        with open(ev_path, "w") as f:
            f.write(json.dumps(ev, indent=1, default=_json_default))

    for kid, hit in sorted(known_hits.items()):
        print(f"KNOWN-FINDING: property={prop} {hit['what']} [{kid}; {hit['n']} case(s)]", flush=True)
    for v in violations:
        path = write_replay(prop, v)
        print(f"VIOLATION property={prop} replay={path}", flush=True)
        print(f"  kind={v['kind']} part={v['part']} detail={v['detail'][:600]}", flush=True)
    print(f"{prop} tier={tier} seed={seed} evaluations={evaluations} distinct_nontrivial={distinct} "
          f"violations={len(violations)} known={sum(v['n'] for v in known_hits.values())} "
          f"wall={ev['wall_s']}s", flush=True)
    if violations:
        return 1
    if errors:
        seen_err = set()
        for r in errors:
            if r["error"][-300:] in seen_err:
                continue
            seen_err.add(r["error"][-300:])
            print(f"HARNESS-ERROR property={prop} part={r.get('part')}:\n{r['error']}", flush=True)
        return 2
    if floor_problems:
        for p in floor_problems:
            print(f"HARNESS-ERROR property={prop} generator health: {p}", flush=True)
        return 2
    if not ev_ok:
        return 2
    return 0


def run_replay(modname, path):
    import importlib

    mod = importlib.import_module(modname)
    prop = mod.PROPERTY
    with open(path) as f:
        rp = json.load(f)
    known = load_known(prop)
    ctx = Ctx(prop, "quick", 0, 0, rp["part"], known=known, predicates=getattr(mod, "KNOWN", {}),
              replaying=True)
    mod.REPLAY[rp["part"]](ctx, rp["case"])
    for kid, hit in sorted(ctx.known_hits.items()):
        print(f"KNOWN-FINDING: property={prop} {hit['what']} [{kid}]")
    for v in ctx.violations:
        print(f"VIOLATION property={prop} replay={os.path.relpath(os.path.abspath(path), VERIF)}")
        print(f"  kind={v['kind']} detail={v['detail'][:1500]}")
    if ctx.violations:
        return 1
    print(f"{prop} replay {path}: no violation")
    return 0
