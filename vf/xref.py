"""Reference semantics for decoding one packet against a document model (DESIGN.md 2.5) and packet
synthesis by a lazily extended bit stream (2.6).

Works on a Python string of '0'/'1' characters and exact rationals; shares no code with the library.
"""
from fractions import Fraction

from vf import cal as calm
from vf import crit, refbits, xdoc


class Stop(Exception):
    """decoding of this packet ends here; .kind says why"""

    def __init__(self, kind, detail=""):
        super().__init__(kind)
        self.kind, self.detail = kind, detail


class Bits:
    """bit cursor over a fixed packet, or (synthesis) a stream that grows on demand through `chooser`"""

    def __init__(self, bits: str, chooser=None, rewind_negative=False):
        self.bits = bits
        self.pos = 0
        self.chooser = chooser
        self.rewind_negative = rewind_negative   # synthesis only: build packets an implementation that lets the
        #                                          cursor run backwards on a negative length would consume exactly

    def take(self, n, info):
        if n < 0 and self.rewind_negative and self.chooser is not None and self.pos + n >= 0:
            self.pos += n
            return ""
        if n < 0:
            raise Stop("negative-length", f"{info.get('name')}: computed length {n}")
        if self.pos + n > len(self.bits):
            if self.chooser is None:
                raise Stop("beyond-end", f"{info.get('name')}: needs bits {self.pos}..{self.pos + n} of {len(self.bits)}")
            new = self.chooser(self.pos + n - len(self.bits), dict(info, have=self.bits[self.pos:]))
            assert len(new) == self.pos + n - len(self.bits) and set(new) <= {"0", "1"}, (new, n)
            self.bits += new
        out = self.bits[self.pos:self.pos + n]
        self.pos += n
        return out


class Result:
    def __init__(self):
        self.items = []          # (name, value, raw) plain python
        self.status = "ok"       # ok | unrecognized | error
        self.reason = None       # for unrecognized: abstract-dead-end | ambiguous; for error: kind
        self.detail = ""
        self.pos = 0
        self.path = []           # container names visited by inheritance
        self.unspecified = None  # sub-domain the properties leave open (value of the failing field not asserted)
        self.lengths = []        # (name, computed length in bits, form) for dynamic fields
        self.expect_exc = None   # exception class name the property names for this failure, if any
        self.container_ends = []  # cursor after the entry list of every container on the inheritance path

    @property
    def values(self):
        """name -> (value, raw) as plain values; calibrated values as the float of the exact result (values that
        feed criteria or lengths come from exact-friendly calibrators, so this float is what any correct
        evaluation order produces)"""
        return {n: (plain_value(v), r) for n, v, r in self.items}


class Model:
    def __init__(self, doc):
        self.doc = doc
        self.types = {t["name"]: t for t in doc["types"]}
        self.params = {p["name"]: p for p in doc["params"]}
        self.conts = {c["name"]: c for c in doc["containers"]}
        self.children = {}
        for c in doc["containers"]:
            if c.get("base"):
                self.children.setdefault(c["base"], []).append(c["name"])

    def ptype(self, pname):
        return self.types[self.params[pname]["type"]]


# ---- field decoders --------------------------------------------------------------------------------------

def compute_len(ln, values, name):
    """length in bits of a string/binary field; raises Stop"""
    if ln["t"] == "fixed":
        return int(ln["bits"]), "fixed"
    if ln["t"] == "lookup":
        for e in ln["entries"]:
            try:
                ok = crit.ref_match(e["match"], values)
            except crit.RefError as ex:
                raise Stop("criteria-undefined", str(ex))
            if ok:
                v = Fraction(e["value"])
                if v.denominator != 1:
                    raise Stop("non-integer-length", f"{name}: looked-up length {e['value']}")
                return int(v), "lookup"
        raise Stop("no-lookup-match", f"{name}: no discrete lookup entry matches")
    if ln["ref"] not in values:
        raise Stop("criteria-undefined", f"{name}: length reference {ln['ref']} not decoded")
    x = values[ln["ref"]][0 if ln["cal"] else 1]
    x = crit.plain(x)
    if isinstance(x, bool):
        x = int(x)
    if not isinstance(x, (int, float)) or (isinstance(x, float) and (x != x or x in (float("inf"), float("-inf")))):
        raise Stop("non-integer-length", f"{name}: length reference value {x!r}")
    v = Fraction(x)
    if ln.get("adj"):
        v = ln["adj"]["slope"] * v + ln["adj"]["intercept"]
    if v.denominator != 1:
        raise Stop("non-integer-length", f"{name}: computed length {float(v)}")
    return int(v), "dyn-adjusted" if ln.get("adj") else "dyn"


def decode_string(enc, buf_bits):
    """(raw bytes, text or None, unspecified-reason or None)"""
    padded = buf_bits + "0" * ((-len(buf_bits)) % 8)
    raw = refbits.bytes_of_bits(padded)
    codec = xdoc.codec_for(enc)
    d = enc.get("delim")
    try:
        if not d:
            return raw, raw.decode(codec), None
        if d["t"] == "term":
            t = bytes.fromhex(d["hex"])
            u = len(t)
            step = 1 if enc["charset"] == "UTF-8" else u   # UTF-8 is self-synchronising: any byte offset
            for i in range(0, len(raw) - u + 1, step):
                if raw[i:i + u] == t:
                    return raw, raw[:i].decode(codec), None
            # a terminator present only at a non-aligned offset, or none at all
            return raw, None, "terminator missing" if t not in raw else "terminator only at a misaligned offset"
        n = d["bits"]
        if n > len(padded):
            return raw, None, "size tag longer than the buffer"
        size = int(padded[:n], 2) if n else 0
        if size % 8:
            return raw, None, "size tag not a multiple of 8"
        if n + size > len(padded):
            return raw, None, "size tag exceeds the buffer"
        body = padded[n:n + size]
        return raw, refbits.bytes_of_bits(body).decode(codec), None
    except UnicodeDecodeError:
        return raw, None, "text does not decode"


def decode_param(m: Model, pname, bits: Bits, res: Result):
    pt = m.ptype(pname)
    enc = xdoc.effective_enc(pt)
    info = {"name": pname, "ptype": pt, "enc": enc, "values": res.values}
    k = enc["k"]
    if k in ("int", "float"):
        fbits = bits.take(enc["bits"], info)
        raw = calm.ref_raw(enc, fbits)
        if pt["kind"] == "enum":
            for key, lab in pt["enum"]:
                kk = xdoc.enum_key(pt, key)
                if kk == raw:
                    return lab, raw
            res.expect_exc = "ValueError"
            raise Stop("enum-unlisted", f"{pname}: raw {raw!r} not in the enumeration")
        if pt["kind"] == "bool":
            return bool(raw), raw
        try:
            sel, _, cal = calm.ref_select(enc, raw, res.values)
        except crit.RefError as ex:
            raise Stop("criteria-undefined", str(ex))
        if sel == "raw":
            return raw, raw
        try:
            v, mag, exact = calm.ref_cal(cal, raw)
        except calm.RefCalibrationError as ex:
            res.expect_exc = "CalibrationError"
            raise Stop("calibration-error", f"{pname}: {ex}")
        except calm.RefUndefined as ex:
            res.unspecified = f"calibration not judged: {ex}"
            raise Stop("unspecified", f"{pname}: {ex}")
        return ("cal", v, mag, exact), raw
    ln, form = compute_len(enc["len"], res.values, pname)
    res.lengths.append((pname, ln, form))
    info["length"] = ln
    fbits = bits.take(ln, info)
    if ln < 0:   # only reachable in the rewinding synthesis mode
        return (b"" if k == "bin" else ""), (None if k == "bin" else b"")
    if k == "bin":
        nbytes = (ln + 7) // 8
        return (int(fbits, 2).to_bytes(nbytes, "big") if ln else b""), None
    raw, text, why = decode_string(enc, fbits)
    if text is None:
        res.unspecified = why
        raise Stop("unspecified", f"{pname}: {why}")
    if pt["kind"] == "enum":
        for key, lab in pt["enum"]:
            if xdoc.enum_key(pt, key) == raw:
                return lab, raw
        res.expect_exc = "ValueError"
        raise Stop("enum-unlisted", f"{pname}: raw {raw!r} not in the enumeration")
    return text, raw


def parse_entries(m: Model, cname, bits: Bits, res: Result, depth=0):
    if depth > 50:
        raise Stop("recursion", cname)
    for kind, name in m.conts[cname]["entries"]:
        if kind == "c":
            parse_entries(m, name, bits, res, depth + 1)
            continue
        value, raw = decode_param(m, name, bits, res)
        if raw is None:
            raw = value
        res.items.append((name, value, raw))


def decode(doc_or_model, packet: bytes, chooser=None, prefix_bits=None, rewind_negative=False) -> Result:
    m = doc_or_model if isinstance(doc_or_model, Model) else Model(doc_or_model)
    bits = Bits(refbits.bits_of(packet) if prefix_bits is None else prefix_bits, chooser, rewind_negative)
    res = Result()
    current = m.doc["root"]
    try:
        while True:
            res.path.append(current)
            parse_entries(m, current, bits, res)
            res.container_ends.append(bits.pos)
            valid = []
            for child in m.children.get(current, []):
                mt = m.conts[child].get("match")
                try:
                    ok = True if not mt else crit.ref_match(mt, res.values)
                except crit.RefError as ex:
                    raise Stop("criteria-undefined", str(ex))
                if ok:
                    valid.append(child)
            if len(valid) == 1:
                current = valid[0]
                continue
            if not valid:
                if m.conts[current].get("abstract"):
                    res.status, res.reason = "unrecognized", "abstract-dead-end"
                break
            res.status, res.reason = "unrecognized", "ambiguous"
            res.detail = f"{valid}"
            break
    except Stop as s:
        res.status, res.reason, res.detail = "error", s.kind, s.detail
    res.pos = bits.pos
    res.final_bits = bits.bits
    return res


def plain_value(v):
    """('cal', Fraction, mag, exact) -> float for display"""
    if isinstance(v, tuple) and v and v[0] == "cal":
        return float(v[1])
    return v


def compare_value(name, got, exp_value, exp_raw):
    """library value vs reference (value, raw). returns None or text"""
    rv = getattr(got, "raw_value", "<no raw_value>")
    # raw
    if isinstance(exp_raw, float):
        if not isinstance(rv, float) or not refbits.same_float(float(rv), exp_raw):
            return f"{name}: raw_value {rv!r}, expected {exp_raw!r}"
    elif isinstance(exp_raw, bool) or isinstance(exp_raw, int):
        if not isinstance(rv, int) or isinstance(rv, float) or int(rv) != int(exp_raw):
            return f"{name}: raw_value {rv!r}, expected {exp_raw!r}"
    elif isinstance(exp_raw, (bytes, str)):
        if not isinstance(rv, type(exp_raw)) or rv != exp_raw:
            return f"{name}: raw_value {rv!r}, expected {exp_raw!r}"
    # value
    if isinstance(exp_value, tuple):
        if not isinstance(got, float):
            return f"{name}: calibrated value {got!r} is {type(got).__name__}, expected a float"
        if not calm.close(float(got), exp_value[1], exp_value[2], exp_value[3]):
            return f"{name}: value {float(got)!r}, expected {float(exp_value[1])!r}"
        return None
    if isinstance(exp_value, bool):
        if type(got).__name__ != "BoolParameter" or bool(got) != exp_value:
            return f"{name}: value {got!r} ({type(got).__name__}), expected boolean {exp_value!r}"
        return None
    if isinstance(exp_value, float):
        if not isinstance(got, float) or not refbits.same_float(float(got), exp_value):
            return f"{name}: value {got!r} ({type(got).__name__}), expected float {exp_value!r}"
        return None
    if isinstance(exp_value, int):
        if not isinstance(got, int) or isinstance(got, float) or type(got).__name__ == "BoolParameter" \
                or int(got) != exp_value:
            return f"{name}: value {got!r} ({type(got).__name__}), expected int {exp_value!r}"
        return None
    if isinstance(exp_value, (str, bytes)):
        if not isinstance(got, type(exp_value)) or got != exp_value:
            return f"{name}: value {got!r} ({type(got).__name__}), expected {exp_value!r}"
        return None
    return f"{name}: unexpected reference value {exp_value!r}"


def compare_items(lib_items, ref_items, prefix_only=False):
    """lib_items: list of (name, value) in order; ref_items: list of (name, value, raw)."""
    names_l = [n for n, _ in lib_items]
    names_r = [n for n, _, _ in ref_items]
    if prefix_only:
        if names_l[:len(names_r)] != names_r:
            return f"parameters {names_l} do not start with the expected {names_r}"
    elif names_l != names_r:
        return f"parameters {names_l}, expected {names_r}"
    for (n, got), (_, ev, er) in zip(lib_items, ref_items):
        d = compare_value(n, got, ev, er)
        if d:
            return d
    return None
