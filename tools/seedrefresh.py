#!/venv/bin/python
"""Re-run checks against an already confirmed seeded change and merge the outcome into its meta.json.

  tools/seedrefresh.py <name> [--checks C05,C08] [--strengthened "text"] [--origin "text"]

Keeps what_was_run of the confirmation, records the first-run outcome once (field first_run), adds/overwrites
detections for the checks run now. The patched tree is a scratch copy outside /repo and /verif and is removed.
"""
import argparse
import json
import os
import shutil
import subprocess
import sys
import tempfile

VERIF = os.path.dirname(os.path.dirname(os.path.abspath(__file__)))


def main():
    ap = argparse.ArgumentParser()
    ap.add_argument("name")
    ap.add_argument("--checks", default="")
    ap.add_argument("--strengthened", default=None)
    ap.add_argument("--origin", default=None)
    a = ap.parse_args()
    dest = os.path.join(VERIF, "seeded", a.name)
    with open(os.path.join(dest, "meta.json")) as f:
        meta = json.load(f)
    prop = meta["property"]
    if "first_run" not in meta:
        meta["first_run"] = (f"detected by the quick check of {prop} as it was when the change arrived"
                             if prop in meta.get("detected_by", []) else
                             f"missed by the quick check of {prop} as it was when the change arrived")
    checks = [c for c in (a.checks.split(",") if a.checks else [prop]) if c]
    scratch = tempfile.mkdtemp(prefix="spp_seed_")
    try:
        subprocess.run(f"git -C /repo archive HEAD | tar -x -C {scratch}", shell=True, check=True)
        r = subprocess.run(["patch", "-p1", "-s", "-i", os.path.join(dest, "patch.diff")], cwd=scratch,
                           capture_output=True, text=True)
        if r.returncode != 0:
            print("patch does not apply:", r.stdout, r.stderr)
            return 2
        for c in checks:
            env = dict(os.environ, VERIF_REPO=scratch, VERIF_NO_EVIDENCE="1")
            rc = subprocess.run([os.path.join(VERIF, "check.py"), c, "--tier", "quick"], cwd=VERIF, env=env,
                                capture_output=True, text=True)
            first = next((l.strip() for l in rc.stdout.splitlines() if l.strip().startswith("kind=")), "")
            meta.setdefault("detections", {})[c] = {"exit": rc.returncode, "first": first[:400]}
            meta["what_was_run"].append(f"(later) ./check.py {c} --tier quick with VERIF_REPO=<patched copy>: exit "
                                        f"{rc.returncode} {first[:160]}")
            print(a.name, c, "exit", rc.returncode, first[:200])
    finally:
        shutil.rmtree(scratch, ignore_errors=True)
    det = meta["detections"]
    meta["detected_by"] = sorted(c for c, d in det.items() if d["exit"] == 1)
    meta["missed_by"] = sorted(c for c, d in det.items() if d["exit"] == 0)
    meta["harness_error"] = sorted(c for c, d in det.items() if d["exit"] not in (0, 1))
    if a.strengthened:
        meta["check_strengthened"] = a.strengthened
    if a.origin:
        meta["origin"] = a.origin
    first = prop if prop in meta["detected_by"] else (meta["detected_by"][0] if meta["detected_by"] else prop)
    meta["how_to_rerun"] = f"./selftest.py seeded/{a.name}/patch.diff {first}"
    with open(os.path.join(dest, "meta.json"), "w") as f:
        json.dump(meta, f, indent=1)
    return 0


if __name__ == "__main__":
    sys.exit(main())
