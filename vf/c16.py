"""C16 – loading is independent of lexical spelling and of earlier loads."""
import io
import os
import tempfile

from hypothesis import strategies as st
from hypothesis.stateful import RuleBasedStateMachine, initialize, rule, run_state_machine_as_test

from vf import xdoc, xgen
from vf.runner import Fail, StopShrinking, exc_sig, hyp_run

PROPERTY = "C16"
LEVEL = "exploration"
RULE = ("Configurations x histories. For a Hypothesis-generated model M: renderings by the harness's own XML writer in "
        "three namespace conventions (a prefix of any name such as xtce, x, foo-1; a default namespace; no namespace), "
        "with or without an extra xmlns:xsi declaration, with comments and whitespace inserted between the children of "
        "EVERY element-only element (incl. the list elements ParameterTypeSet, EntryList, ComparisonList, "
        "ContextCalibratorList, EnumerationList, SplineCalibrator, PolynomialCalibrator, DiscreteLookupList, "
        "ANDed/ORedConditions), defaults written or omitted, one-element ComparisonList vs bare Comparison, from a "
        "BytesIO or a file path. Histories: 0..4 prior from_xtce calls drawn from renderings of OTHER models in other "
        "conventions, not-well-formed XML, a well-formed document loaded with a wrong prefix, and documents that fail "
        "inside the loader after the namespace state has been set (dangling reference). Two drivers: generated "
        "histories, and a Hypothesis RuleBasedStateMachine whose rules are 'load rendering r of model m' / 'attempt a "
        "failing load'. Oracle: dump(load(rendering, prefix) after the history) == model_dump(M), an expectation that "
        "never touched the library, hence equal across all renderings and histories. Non-trivial: the history is "
        "non-empty with a convention different from the document under test, or a comment / whitespace lies inside a "
        "list element; distinct by hash of (history, rendering).")
ASSUMPTIONS = ["comments and whitespace are inserted only between element children of element-only content (not inside "
               "text-valued elements such as FixedValue, Unit, TerminationChar, Value)",
               "descriptions and units are free of control characters (XML line-end normalisation is lxml's)"]
EXHAUSTIVE = {"quick": False, "thorough": False}


@st.composite
def gen_opts(draw, noisy=None):
    ns = draw(st.sampled_from(["prefix", "prefix", "default", "none"]))
    noise = []
    if noisy is None:
        noisy = draw(st.integers(0, 2)) > 0
    if noisy:
        noise = draw(st.lists(st.sampled_from([0, 0, 0, 1, 2, 3]), min_size=1, max_size=30))
    return {"ns": ns, "prefix": draw(st.sampled_from(["xtce", "x", "foo-1", "XTCE", "a.b"])),
            "xsi": draw(st.booleans()), "omit_defaults": draw(st.booleans()), "single_list": draw(st.booleans()),
            "reverse_points": draw(st.booleans()), "empty_unitset": draw(st.booleans()),
            "int_values": draw(st.booleans()), "false_as_0": draw(st.booleans()),
            "type_signed": draw(st.sampled_from([None, None, "match", "true", "false", "opposite"])), "noise": noise, "pretty": draw(st.booleans()),
            "declaration": draw(st.booleans()), "base_after_entries": False}


def do_load(doc, opts, source):
    from space_packet_parser.xtce import definitions
    data = xdoc.render(doc, opts)
    if source == "path":
        d = tempfile.mkdtemp(prefix="vf_c16_")
        try:
            p = os.path.join(d, "doc.xml")
            with open(p, "wb") as f:
                f.write(data)
            return definitions.XtcePacketDefinition.from_xtce(p, xtce_ns_prefix=xdoc.load_prefix(opts),
                                                              root_container_name=doc["root"])
        finally:
            import shutil
            shutil.rmtree(d, ignore_errors=True)
    return definitions.XtcePacketDefinition.from_xtce(io.BytesIO(data), xtce_ns_prefix=xdoc.load_prefix(opts),
                                                      root_container_name=doc["root"])


def noise_in_lists(doc, opts):
    if not opts.get("noise") or not any(opts["noise"]):
        return False
    return True


def apply_op(ctx, op, history_conventions, whole_case):
    """returns None or a violation tuple (kind, detail)"""
    from space_packet_parser.xtce import definitions
    kind = op["op"]
    if kind == "load":
        doc, opts = op["doc"], op["opts"]
        conv = (opts["ns"], opts["prefix"] if opts["ns"] == "prefix" else None)
        nontrivial = bool(history_conventions and any(c != conv for c in history_conventions)) or \
            noise_in_lists(doc, opts)
        ctx.count()
        ctx.cls(f"load ns={opts['ns']}" + ("+xsi" if opts.get("xsi") else "") + (" with comments/whitespace" if opts.get("noise") and any(opts["noise"]) else ""))
        ctx.cls(f"load after {min(len(history_conventions), 4)} earlier loads")
        if nontrivial:
            ctx.nontrivial((whole_case if len(repr(whole_case)) < 200000 else repr(whole_case)[:200000]))
            ctx.cls("nontrivial")
        try:
            d = do_load(doc, opts, op.get("source", "bytesio"))
        except Exception as e:
            return ("load-raised", f"loading a rendering (ns={opts['ns']}, prefix={opts['prefix']}, xsi={opts.get('xsi')}, "
                                   f"noise={bool(opts.get('noise') and any(opts['noise']))}) after {len(history_conventions)} "
                                   f"earlier loads raised {e!r} [{exc_sig(e)}]", "load-raised:" + exc_sig(e))
        finally:
            history_conventions.append(conv)
        try:
            dump = xdoc.lib_dump(d)
        except xdoc.DumpError as e:
            return ("dump", str(e), "dump")
        df = xdoc.diff(dump, xdoc.model_dump(doc))
        if df:
            return ("definition-differs", f"definition loaded from a rendering (ns={opts['ns']}, prefix={opts['prefix']}) "
                                          f"after {len(history_conventions) - 1} earlier loads differs from the model: {df}",
                    "definition-differs:" + df.split(":")[0].split("/")[-1].split("[")[0])
        if opts.get("noise") and any(opts["noise"]):
            # metamorphic: the same rendering without its comments / whitespace gives the same *raw* attributes (the
            # canonical dump treats an empty unit or description like an absent one; the spelling must not decide which)
            try:
                plain = do_load(doc, dict(opts, noise=None), op.get("source", "bytesio"))
            except Exception as e:
                return ("load-raised", f"loading the rendering without its comments/whitespace raised {e!r}",
                        "load-raised-plain:" + exc_sig(e))
            for what, a, b in (("parameter type units", {n: t.unit for n, t in d.parameter_types.items()},
                                {n: t.unit for n, t in plain.parameter_types.items()}),
                               ("parameter descriptions", {n: (q.short_description, q.long_description) for n, q in d.parameters.items()},
                                {n: (q.short_description, q.long_description) for n, q in plain.parameters.items()}),
                               ("container descriptions", {n: (c.short_description, c.long_description) for n, c in d.containers.items()},
                                {n: (c.short_description, c.long_description) for n, c in plain.containers.items()}),
                               ("the orders of containers, parameters and inheritors",
                                {"containers": list(d.containers), "parameters": list(d.parameters),
                                 **{"inheritors of " + n: list(c.inheritors) for n, c in d.containers.items()}},
                                {"containers": list(plain.containers), "parameters": list(plain.parameters),
                                 **{"inheritors of " + n: list(c.inheritors) for n, c in plain.containers.items()}})):
                if a != b:
                    diffs = {n: (a.get(n), b.get(n)) for n in a if a.get(n) != b.get(n)}
                    return ("noise-changes-definition", f"{what} differ between a rendering with comments/whitespace and "
                                                        f"the same rendering without: {dict(list(diffs.items())[:3])}",
                            "noise-changes-definition:" + what)
        return None
    # failing loads: whatever happens (usually an exception) must not influence later loads
    ctx.cls("history op: " + kind)
    try:
        if kind == "malformed":
            definitions.XtcePacketDefinition.from_xtce(io.BytesIO(op["data"].encode()), xtce_ns_prefix=op.get("prefix"))
        elif kind == "wrong-prefix":
            data = xdoc.render(op["doc"], op["opts"])
            definitions.XtcePacketDefinition.from_xtce(io.BytesIO(data), xtce_ns_prefix=op["prefix"],
                                                       root_container_name=op["doc"]["root"])
        elif kind == "dangling":
            doc = dict(op["doc"])
            conts = [dict(c) for c in doc["containers"]]
            conts[0] = dict(conts[0], entries=conts[0]["entries"] + [["p", "NO_SUCH_PARAMETER"]])
            doc["containers"] = conts
            data = xdoc.render(doc, op["opts"])
            definitions.XtcePacketDefinition.from_xtce(io.BytesIO(data), xtce_ns_prefix=xdoc.load_prefix(op["opts"]),
                                                       root_container_name=doc["root"])
    except BaseException as e:  # noqa: BLE001 - failing on purpose
        if isinstance(e, (KeyboardInterrupt, SystemExit, StopShrinking, Fail)):
            raise
    o = op.get("opts")
    history_conventions.append((o["ns"], o["prefix"] if o["ns"] == "prefix" else None) if o else ("malformed", None))
    return None


def reset_process_state():
    """put the library's process-wide namespace state back to what a fresh process has, so that every case is a
    pure function of its own history (state leaking between generated cases would make failures unreproducible)"""
    try:
        from space_packet_parser import common
        el = common.NamespaceAwareElement
        if hasattr(el, "_nsmap"):
            el._nsmap = {}
        if hasattr(el, "_ns_prefix"):
            el._ns_prefix = None
    except Exception:  # noqa: BLE001 - hygiene only
        pass


def check_case(ctx, case):
    reset_process_state()
    hist = []
    ctx.sample("history", {"ops": [o["op"] + ("/" + o["opts"]["ns"] if o.get("opts") else "") for o in case["ops"]]})
    for op in case["ops"]:
        r = apply_op(ctx, op, hist, case["ops"])
        if r:
            return ctx.fail(r[0], r[1], case, bucket=r[2])
    return None


MALFORMED = ["", "<a>", "<xtce:SpaceSystem xmlns:xtce='u'><xtce:Header/>", "not xml at all", "<?xml version='1.0'?><a><b></a>",
             "<SpaceSystem xmlns='http://www.omg.org/spec/XTCE/20180204'></SpaceSystem>",
             "<x:SpaceSystem xmlns:x='http://www.omg.org/spec/XTCE/20180204'><x:TelemetryMetaData/></x:SpaceSystem>"]


@st.composite
def gen_history_op(draw, profile="trees"):
    kind = draw(st.sampled_from(["load", "load", "malformed", "wrong-prefix", "dangling"]))
    if kind == "malformed":
        return {"op": "malformed", "data": draw(st.sampled_from(MALFORMED)), "prefix": draw(st.sampled_from([None, "xtce", "x"]))}
    doc = draw(xgen.gen_doc(profile))
    opts = draw(gen_opts())
    if kind == "load":
        return {"op": "load", "doc": doc, "opts": opts, "source": draw(st.sampled_from(["bytesio", "path"]))}
    if kind == "wrong-prefix":
        return {"op": "wrong-prefix", "doc": doc, "opts": opts, "prefix": draw(st.sampled_from(["nope", "xtce", "x", None]))}
    return {"op": "dangling", "doc": doc, "opts": opts}


@st.composite
def gen_case(draw, profile="full"):
    doc = draw(xgen.gen_doc(profile))
    nhist = draw(st.integers(0, 4))
    ops = [draw(gen_history_op()) for _ in range(nhist)]
    # the document under test in several renderings
    for _ in range(draw(st.integers(1, 3))):
        ops.append({"op": "load", "doc": doc, "opts": draw(gen_opts()), "source": draw(st.sampled_from(["bytesio", "bytesio", "path"]))})
        if draw(st.integers(0, 3)) == 0:
            ops.append(draw(gen_history_op()))
    return {"ops": ops}


def part_generated(ctx, examples, profile="full"):
    hyp_run(ctx, gen_case(profile), check_case, examples, shrink_budget=80 if ctx.tier == "quick" else 800, rounds=3)


def part_machine(ctx, examples, steps):
    """the same domain driven by a Hypothesis rule-based state machine"""
    import hypothesis
    from hypothesis import HealthCheck, Phase, settings
    state = {"last": None}

    class Loads(RuleBasedStateMachine):
        def __init__(self):
            super().__init__()
            reset_process_state()
            self.hist = []
            self.ops = []

        def _apply(self, op):
            self.ops.append(op)
            r = apply_op(ctx, op, self.hist, self.ops)
            if r:
                v = {"kind": r[0], "detail": r[1], "bucket": r[2], "part": ctx.part, "case": {"ops": list(self.ops)}}
                if ctx.match_known(v["case"], v) is None and r[2] not in ctx.suppressed:
                    state["last"] = v
                    raise Fail(v)

        @rule(doc=xgen.gen_doc("trees"), opts=gen_opts(), source=st.sampled_from(["bytesio", "path"]))
        def load_small(self, doc, opts, source):
            self._apply({"op": "load", "doc": doc, "opts": opts, "source": source})

        @rule(doc=xgen.gen_doc("full"), opts=gen_opts(), opts2=gen_opts())
        def load_twice(self, doc, opts, opts2):
            self._apply({"op": "load", "doc": doc, "opts": opts, "source": "bytesio"})
            self._apply({"op": "load", "doc": doc, "opts": opts2, "source": "bytesio"})

        @rule(op=gen_history_op())
        def other(self, op):
            self._apply(op)

    st_settings = settings(max_examples=examples, stateful_step_count=steps, deadline=None, database=None,
                           report_multiple_bugs=False, print_blob=False, suppress_health_check=list(HealthCheck),
                           phases=[Phase.generate, Phase.shrink] if ctx.tier != "quick" else [Phase.generate])
    machine = hypothesis.seed((ctx.seed * 1000 + ctx.shard) * 10 + 7)(Loads)
    try:
        run_state_machine_as_test(machine, settings=st_settings)
    except Fail:
        pass
    except BaseException:
        if state["last"] is None:
            raise
    if state["last"] is not None:
        ctx.violations.append(state["last"])
        ctx.suppressed.add(state["last"]["bucket"])


PARTS = {"generated": part_generated, "machine": part_machine}
REPLAY = {"generated": check_case, "machine": check_case}
KNOWN = {}
FLOORS = {"nontrivial": ("", 0.2)}


def plan(tier, seed):
    q = tier == "quick"
    tasks = []
    for i in range(12):
        tasks.append(("generated", {"examples": 40 if q else 800, "profile": ["full", "trees", "blobs"][i % 3]}))
    for i in range(4):
        tasks.append(("machine", {"examples": 12 if q else 300, "steps": 8}))
    return tasks
