"""Document model -> library objects (build), -> XML (render, own writer), and canonical structural dumps.

Model (plain JSON, see DESIGN.md 2.3):
  Doc       = {"name", "date", "root", "types": [PType], "params": [Param], "containers": [Container]}
  PType     = {"kind": int|float|enum|bool|str|bin|abstime|reltime, "name", "unit", "enc": Enc,
               "enum": [[key, label]], "epoch", "offset_from", "time": {"scale", "offset"}}
  Enc       = numeric (vf/cal.py) | {"k": "str", "charset", "order", "len": Len, "delim": None|{"t": "term", "hex"}|
               {"t": "lead", "bits"}} | {"k": "bin", "len": Len}
  Len       = {"t": "fixed", "bits"} | {"t": "dyn", "ref", "cal", "adj": None|{"slope", "intercept"}}
            | {"t": "lookup", "entries": [{"match": Match(cmp/list), "value": number}]}
  Param     = {"name", "type", "short", "long"}
  Container = {"name", "entries": [["p"|"c", name]], "base", "match": Match|None, "abstract", "short", "long"}
"""
import io

from lxml import etree

from vf import cal as calm
from vf import crit

XTCE_URI = "http://www.omg.org/spec/XTCE/20180204"
XSI_URI = "http://www.w3.org/2001/XMLSchema-instance"
BE, LE = calm.BE, calm.LE
MULTIBYTE = ("UTF-16", "UTF-32")
CHARSETS = ("US-ASCII", "ISO-8859-1", "Windows-1252", "UTF-8", "UTF-16", "UTF-16LE", "UTF-16BE", "UTF-32",
            "UTF-32LE", "UTF-32BE")
TYPE_CLASS = {"int": "IntegerParameterType", "float": "FloatParameterType", "enum": "EnumeratedParameterType",
              "bool": "BooleanParameterType", "str": "StringParameterType", "bin": "BinaryParameterType",
              "abstime": "AbsoluteTimeParameterType", "reltime": "RelativeTimeParameterType"}


def time_poly(t):
    """the polynomial the XTCE scale/offset attributes of a time type stand for (offset first, as read)"""
    if not t or (t.get("scale") is None and t.get("offset") is None):
        return None
    terms = []
    if t.get("offset") is not None:
        terms.append([float(t["offset"]), 0])
    if t.get("scale") is not None:
        terms.append([float(t["scale"]), 1])
    elif t.get("offset") is not None:
        terms.append([1.0, 1])
    return {"t": "poly", "terms": terms}


def effective_enc(pt):
    """numeric encoding of a type with the time scale/offset folded in as the default calibrator"""
    enc = pt["enc"]
    if pt["kind"] in ("abstime", "reltime"):
        tp = time_poly(pt.get("time"))
        if tp is not None:
            enc = dict(enc, dcal=tp)
    return enc


# =================================================================================================
# build: model -> library objects


def adjuster(adj):
    """the callable an object-built definition carries: linear in x, the RESULT must be an integer (the referenced
    value itself may be fractional, e.g. a calibrated half-byte counter with slope 8)"""
    from fractions import Fraction
    slope, intercept = int(adj["slope"]), int(adj["intercept"])

    def f(x):
        v = slope * Fraction(x) + intercept
        if v.denominator != 1:
            raise ValueError(f"non-integer adjusted length {float(v)}")
        return int(v)
    return f


def build_lookup(entries):
    from space_packet_parser.xtce import comparisons
    return [comparisons.DiscreteLookup(crit.build_match(e["match"]), float(e["value"])) for e in entries]


def build_enc(enc):
    from space_packet_parser.xtce import encodings
    if enc["k"] in ("int", "float"):
        return calm.build_numeric_enc(enc)
    ln = enc["len"]
    if enc["k"] == "bin":
        if ln["t"] == "fixed":
            return encodings.BinaryDataEncoding(fixed_size_in_bits=ln["bits"])
        if ln["t"] == "dyn":
            return encodings.BinaryDataEncoding(size_reference_parameter=ln["ref"], use_calibrated_value=ln["cal"],
                                                linear_adjuster=adjuster(ln["adj"]) if ln["adj"] else None)
        return encodings.BinaryDataEncoding(size_discrete_lookup_list=build_lookup(ln["entries"]))
    kw = {"encoding": enc["charset"]}
    if enc.get("order") is not None:
        kw["byte_order"] = enc["order"]
    if ln["t"] == "fixed":
        kw["fixed_raw_length"] = ln["bits"]
    elif ln["t"] == "dyn":
        kw.update(dynamic_length_reference=ln["ref"], use_calibrated_value=ln["cal"],
                  length_linear_adjuster=adjuster(ln["adj"]) if ln["adj"] else None)
    else:
        kw["discrete_lookup_length"] = build_lookup(ln["entries"])
    d = enc.get("delim")
    if d and d["t"] == "term":
        kw["termination_character"] = d["hex"]
    elif d and d["t"] == "lead":
        kw["leading_length_size"] = d["bits"]
    return encodings.StringDataEncoding(**kw)


def enum_key(pt, key):
    k = pt["enc"]["k"]
    if k == "int":
        return int(key)
    if k == "float":
        return float.fromhex(key) if isinstance(key, str) else float(key)
    return key.encode(codec_for(pt["enc"]))   # string-encoded: the key is the text of the raw buffer


def codec_for(enc):
    """python codec for a string encoding (explicit byte order for UTF-16/32)"""
    cs = enc["charset"]
    table = {"US-ASCII": "ascii", "ISO-8859-1": "latin-1", "Windows-1252": "cp1252", "UTF-8": "utf-8",
             "UTF-16LE": "utf-16-le", "UTF-16BE": "utf-16-be", "UTF-32LE": "utf-32-le", "UTF-32BE": "utf-32-be"}
    if cs in table:
        return table[cs]
    base = "utf-16" if cs == "UTF-16" else "utf-32"
    return base + ("-le" if enc.get("order") == LE else "-be")


def unit_bytes(enc):
    cs = enc["charset"]
    return 2 if cs.startswith("UTF-16") else 4 if cs.startswith("UTF-32") else 1


def build_type(pt):
    from space_packet_parser.xtce import parameter_types
    enc = build_enc(effective_enc(pt))
    cls = getattr(parameter_types, TYPE_CLASS[pt["kind"]])
    if pt["kind"] == "enum":
        return cls(pt["name"], enc, enumeration={enum_key(pt, k): lab for k, lab in pt["enum"]}, unit=pt.get("unit"))
    if pt["kind"] in ("abstime", "reltime"):
        return cls(pt["name"], enc, unit=pt.get("unit"), epoch=pt.get("epoch"), offset_from=pt.get("offset_from"))
    return cls(pt["name"], enc, pt.get("unit"))


def build(doc, **defn_kwargs):
    """XtcePacketDefinition assembled from objects (the 'built' route)"""
    from space_packet_parser.xtce import containers, definitions, parameters
    types = {t["name"]: build_type(t) for t in doc["types"]}
    params = {p["name"]: parameters.Parameter(p["name"], types[p["type"]], p.get("short"), p.get("long"))
              for p in doc["params"]}
    built = {}
    by_name = {c["name"]: c for c in doc["containers"]}

    def get(name):
        if name in built:
            return built[name]
        c = by_name[name]
        entries = [params[n] if k == "p" else get(n) for k, n in c["entries"]]
        sc = containers.SequenceContainer(
            name=c["name"], entry_list=entries, short_description=c.get("short"), long_description=c.get("long"),
            base_container_name=c.get("base"),
            restriction_criteria=crit.build_match(c["match"]) if c.get("match") else None,
            abstract=bool(c.get("abstract")))
        built[name] = sc
        return sc
    for c in doc["containers"]:
        get(c["name"])
    for c in doc["containers"]:
        if c.get("base"):
            built[c["base"]].inheritors.append(c["name"])
    kw = dict(root_container_name=doc["root"], space_system_name=doc.get("name"), date=doc.get("date"))
    kw.update(defn_kwargs)
    return definitions.XtcePacketDefinition([built[c["name"]] for c in doc["containers"]], **kw)


# =================================================================================================
# render: model -> XML bytes (own writer)

DEFAULT_OPTS = {"ns": "prefix", "prefix": "xtce", "xsi": False, "omit_defaults": False, "noise": [],
                "reverse_points": False, "single_list": False, "declaration": True}


class Maker:
    def __init__(self, opts):
        self.opts = opts
        if opts["ns"] == "none":
            self.uri = None
            self.nsmap = {}
        elif opts["ns"] == "default":
            self.uri = XTCE_URI
            self.nsmap = {None: XTCE_URI}
        else:
            self.uri = XTCE_URI
            self.nsmap = {opts["prefix"]: XTCE_URI}
        if opts.get("xsi"):
            self.nsmap = dict(self.nsmap, xsi=XSI_URI)

    def __call__(self, tag, attrib=None, text=None):
        name = f"{{{self.uri}}}{tag}" if self.uri else tag
        el = etree.Element(name, {k: v for k, v in (attrib or {}).items()}, nsmap=self.nsmap or None)
        if text is not None:
            el.text = text
        return el


def render_len_children(E, ln, opts):
    """children for SizeInBits (binary) / content of Fixed|Variable (string)"""
    if ln["t"] == "dyn":
        dv = E("DynamicValue")
        attrib = {"parameterRef": ln["ref"]}
        if not (opts.get("omit_defaults") and ln["cal"]):
            attrib["useCalibratedValue"] = crit._b(ln["cal"], opts)
        dv.append(E("ParameterInstanceRef", attrib))
        if ln["adj"]:
            a = {}
            if not (opts.get("omit_defaults") and ln["adj"]["slope"] == 0):
                a["slope"] = str(ln["adj"]["slope"])
            if not (opts.get("omit_defaults") and ln["adj"]["intercept"] == 0):
                a["intercept"] = str(ln["adj"]["intercept"])
            dv.append(E("LinearAdjustment", a))
        return dv
    lst = E("DiscreteLookupList")
    for e in ln["entries"]:
        v = e["value"]
        dl = E("DiscreteLookup", {"value": str(int(v)) if float(v).is_integer() and opts.get("int_values") else repr(float(v))})
        m = e["match"]
        if m["form"] == "cmp" and opts.get("single_list"):
            m = {"form": "list", "cmps": m["cmps"]}
        dl.append(crit.render_match_children(E, m, opts))
        lst.append(dl)
    return lst


def render_enc(E, enc, opts):
    if enc["k"] in ("int", "float"):
        return calm.render_numeric_enc(E, enc, opts)
    ln = enc["len"]
    if enc["k"] == "bin":
        el = E("BinaryDataEncoding")
        sib = E("SizeInBits")
        if ln["t"] == "fixed":
            sib.append(E("FixedValue", text=str(ln["bits"])))
        else:
            sib.append(render_len_children(E, ln, opts))
        el.append(sib)
        return el
    attrib = {}
    if not (opts.get("omit_defaults") and enc["charset"] == "UTF-8"):
        attrib["encoding"] = enc["charset"]
    if enc.get("order") is not None:
        attrib["byteOrder"] = enc["order"]
    el = E("StringDataEncoding", attrib)
    if ln["t"] == "fixed":
        size = E("SizeInBits")
        fx = E("Fixed")
        fx.append(E("FixedValue", text=str(ln["bits"])))
        size.append(fx)
    else:
        size = E("Variable")
        size.append(render_len_children(E, ln, opts))
    d = enc.get("delim")
    if d and d["t"] == "term":
        size.append(E("TerminationChar", text=d["hex"]))
    elif d and d["t"] == "lead":
        size.append(E("LeadingSize", {"sizeInBitsOfSizeTag": str(d["bits"])}))
    el.append(size)
    return el


def enum_value_text(pt, key):
    if pt["enc"]["k"] == "int":
        return str(int(key))
    if pt["enc"]["k"] == "float":
        return repr(float.fromhex(key) if isinstance(key, str) else float(key))
    return key


def render_type(E, pt, opts):
    el = E(TYPE_CLASS[pt["kind"]], {"name": pt["name"]})
    if pt["kind"] == "int" and opts.get("type_signed"):
        # the optional `signed` attribute of the parameter TYPE (the data ENCODING decides how the bits are read)
        how = opts["type_signed"]
        el.set("signed", {"true": "true", "false": "false",
                          "match": "false" if pt["enc"]["sign"] == "unsigned" else "true",
                          "opposite": "true" if pt["enc"]["sign"] == "unsigned" else "false"}[how])
    if pt["kind"] in ("abstime", "reltime"):
        attrib = {}
        if pt.get("unit") is not None:
            attrib["units"] = pt["unit"]
        t = pt.get("time") or {}
        if t.get("scale") is not None:
            attrib["scale"] = calm.fstr(t["scale"])
        if t.get("offset") is not None:
            attrib["offset"] = calm.fstr(t["offset"])
        encel = E("Encoding", attrib)
        encel.append(render_enc(E, pt["enc"], opts))
        el.append(encel)
        if pt.get("offset_from") or pt.get("epoch"):
            rt = E("ReferenceTime")
            if pt.get("offset_from"):
                rt.append(E("OffsetFrom", {"parameterRef": pt["offset_from"]}))
            if pt.get("epoch"):
                rt.append(E("Epoch", text=pt["epoch"]))
            el.append(rt)
        return el
    if pt.get("unit"):
        us = E("UnitSet")
        us.append(E("Unit", text=pt["unit"]))
        el.append(us)
    elif opts.get("empty_unitset"):
        el.append(E("UnitSet"))
    el.append(render_enc(E, pt["enc"], opts))
    if pt["kind"] == "enum":
        lst = E("EnumerationList")
        for k, lab in pt["enum"]:
            lst.append(E("Enumeration", {"label": lab, "value": enum_value_text(pt, k)}))
        el.append(lst)
    return el


def render_container(E, c, opts):
    attrib = {"name": c["name"]}
    if not (opts.get("omit_defaults") and not c.get("abstract")):
        attrib["abstract"] = crit._b(c.get("abstract"), opts)
    if c.get("short"):
        attrib["shortDescription"] = c["short"]
    el = E("SequenceContainer", attrib)
    if c.get("long"):
        el.append(E("LongDescription", text=c["long"]))
    entries = E("EntryList")
    for k, n in c["entries"]:
        entries.append(E("ParameterRefEntry", {"parameterRef": n}) if k == "p"
                       else E("ContainerRefEntry", {"containerRef": n}))
    base = None
    if c.get("base"):
        base = E("BaseContainer", {"containerRef": c["base"]})
        if c.get("match"):
            rc = E("RestrictionCriteria")
            m = c["match"]
            if m["form"] == "cmp" and opts.get("single_list"):
                m = {"form": "list", "cmps": m["cmps"]}
            rc.append(crit.render_match_children(E, m, opts))
            base.append(rc)
    if opts.get("base_after_entries"):
        el.append(entries)
        if base is not None:
            el.append(base)
    else:
        if base is not None:
            el.append(base)
        el.append(entries)
    return el


ELEMENT_ONLY_SKIP = {"FixedValue", "Unit", "TerminationChar", "LongDescription", "Epoch", "ComparisonOperator", "Value"}


def add_noise(root, noise):
    """comments / whitespace between the element children of element-only content, driven by the
    drawn decision list `noise` (ints 0..3 consumed cyclically: 0 nothing, 1 comment, 2 whitespace, 3 both)"""
    if not noise:
        return
    i = 0
    for el in list(root.iter()):
        if not isinstance(el.tag, str) or etree.QName(el).localname in ELEMENT_ONLY_SKIP:
            continue
        children = [c for c in el if isinstance(c.tag, str)]
        if not children:
            # element-only elements that may legally be empty: a comment / whitespace as their only content
            if etree.QName(el).localname in ("UnitSet", "EntryList"):
                d = noise[i % len(noise)]
                i += 1
                if d in (1, 3):
                    el.append(etree.Comment(" nothing here "))
                elif d == 2:
                    el.text = "\n   "
            continue
        # position before the first child and after every child
        for pos, child in enumerate([None] + children):
            d = noise[i % len(noise)]
            i += 1
            if d == 0:
                continue
            if d in (1, 3):
                com = etree.Comment(f" note {i} ")
                if child is None:
                    el.insert(0, com)
                else:
                    child.addnext(com)
                if d == 3:
                    com.tail = "\n   "
            elif d == 2:
                if child is None:
                    el.text = (el.text or "") + "\n  "
                else:
                    child.tail = (child.tail or "") + "\n\t "


def render_tree(doc, opts=None):
    o = dict(DEFAULT_OPTS)
    o.update(opts or {})
    E = Maker(o)
    attrib = {}
    if doc.get("name"):
        attrib["name"] = doc["name"]
    root = E("SpaceSystem", attrib)
    if doc.get("date") is not None or not o.get("no_header"):
        h = {"version": "1.0", "validationStatus": "Unknown"}
        if doc.get("date") is not None:
            h["date"] = doc["date"]
        root.append(E("Header", h))
    tm = E("TelemetryMetaData")
    ts = E("ParameterTypeSet")
    for t in doc["types"]:
        ts.append(render_type(E, t, o))
    ps = E("ParameterSet")
    for p in doc["params"]:
        a = {"name": p["name"], "parameterTypeRef": p["type"]}
        if p.get("short"):
            a["shortDescription"] = p["short"]
        pe = E("Parameter", a)
        if p.get("long"):
            pe.append(E("LongDescription", text=p["long"]))
        ps.append(pe)
    cs = E("ContainerSet")
    conts = list(doc["containers"])
    if o.get("container_order") == "reversed":      # XTCE puts no order on the definitions inside a set
        conts.reverse()
    elif o.get("container_order") == "rotated":
        conts = conts[len(conts) // 2:] + conts[:len(conts) // 2]
    for c in conts:
        cs.append(render_container(E, c, o))
    tm.append(ts)
    tm.append(ps)
    tm.append(cs)
    root.append(tm)
    add_noise(root, o.get("noise"))
    return root, o


def render(doc, opts=None) -> bytes:
    root, o = render_tree(doc, opts)
    return etree.tostring(root, xml_declaration=bool(o.get("declaration")), encoding="UTF-8",
                          pretty_print=bool(o.get("pretty")))


def load_prefix(opts):
    o = dict(DEFAULT_OPTS)
    o.update(opts or {})
    return o["prefix"] if o["ns"] == "prefix" else None


def load(doc, opts=None, source="bytesio", path=None):
    """render the model with my writer and load it with the library"""
    from space_packet_parser.xtce import definitions
    data = render(doc, opts)
    if source == "path":
        with open(path, "wb") as f:
            f.write(data)
        src = path
    else:
        src = io.BytesIO(data)
    import warnings
    with warnings.catch_warnings():
        warnings.simplefilter("ignore")    # e.g. the notice about the accepted legacy float-encoding spellings
        return definitions.XtcePacketDefinition.from_xtce(src, xtce_ns_prefix=load_prefix(opts),
                                                          root_container_name=doc["root"])


# =================================================================================================
# canonical dumps


def _s(x):
    """empty descriptions/units mean 'absent' (precondition 5)"""
    return x if x else None


def canon_len(ln):
    if ln["t"] == "fixed":
        return {"t": "fixed", "bits": int(ln["bits"])}
    if ln["t"] == "dyn":
        adj = ln.get("adj")
        return {"t": "dyn", "ref": ln["ref"], "cal": bool(ln["cal"]),
                "adj": [int(adj["slope"]), int(adj["intercept"])] if adj else None}
    return {"t": "lookup", "entries": [{"match": crit.canon_match(e["match"]), "value": float(e["value"])}
                                       for e in ln["entries"]]}


def canon_enc(enc):
    if enc["k"] == "int":
        return {"k": "int", "bits": int(enc["bits"]), "sign": "unsigned" if enc["sign"] == "unsigned" else "signed",
                "order": enc["order"], "dcal": calm.canon_cal(enc.get("dcal")), "ccals": calm.canon_ctx(enc.get("ccals"))}
    if enc["k"] == "float":
        fmt = "IEEE754" if enc["fmt"] in ("IEEE754", "IEEE754_1985") else enc["fmt"]
        return {"k": "float", "bits": int(enc["bits"]), "fmt": fmt, "order": enc["order"],
                "dcal": calm.canon_cal(enc.get("dcal")), "ccals": calm.canon_ctx(enc.get("ccals"))}
    if enc["k"] == "bin":
        return {"k": "bin", "len": canon_len(enc["len"])}
    order = enc.get("order")
    cs = enc["charset"]
    if cs.endswith("LE"):
        order = LE
    elif cs.endswith("BE"):
        order = BE
    elif cs not in MULTIBYTE:
        order = None   # byte order is meaningless for single-byte character sets
    d = enc.get("delim")
    return {"k": "str", "charset": cs[:6] if cs.startswith("UTF-16") or cs.startswith("UTF-32") else cs, "order": order,
            "len": canon_len(enc["len"]),
            "delim": None if not d else ({"t": "term", "hex": d["hex"].lower()} if d["t"] == "term"
                                         else {"t": "lead", "bits": int(d["bits"])})}


def model_dump(doc):
    """expected canonical form straight from the model – never touches the library"""
    used_params, used_types = set(), set()
    by_name = {p["name"]: p for p in doc["params"]}
    for c in doc["containers"]:
        for k, n in c["entries"]:
            if k == "p":
                used_params.add(n)
                used_types.add(by_name[n]["type"])
    types = {}
    for t in doc["types"]:
        if t["name"] not in used_types:
            continue
        d = {"class": TYPE_CLASS[t["kind"]], "unit": _s(t.get("unit")), "enc": canon_enc(effective_enc(t))}
        if t["kind"] == "enum":
            d["enum"] = sorted([[repr(enum_key(t, k)), lab] for k, lab in t["enum"]])
        if t["kind"] in ("abstime", "reltime"):
            d["epoch"] = _s(t.get("epoch"))
            d["offset_from"] = _s(t.get("offset_from"))
        types[t["name"]] = d
    params = {p["name"]: {"type": p["type"], "short": _s(p.get("short")), "long": _s(p.get("long"))}
              for p in doc["params"] if p["name"] in used_params}
    conts = {}
    for c in doc["containers"]:
        conts[c["name"]] = {
            "entries": [[k, n] for k, n in c["entries"]], "base": c.get("base"),
            "match": crit.canon_match(c["match"]) if c.get("match") else None,
            "abstract": bool(c.get("abstract")), "short": _s(c.get("short")), "long": _s(c.get("long")),
            "inheritors": sorted(x["name"] for x in doc["containers"] if x.get("base") == c["name"])}
    return {"types": types, "params": params, "containers": conts}


# ---- the same canonical form read off library objects ----------------------------------------------------

class DumpError(Exception):
    pass


def _lib_cmp(c):
    return {"ref": c.referenced_parameter, "rel": crit.SPELLINGS[c.operator], "value": str(c.required_value),
            "cal": bool(c.use_calibrated_value)}


def _lib_cond(c):
    two = c.right_param is not None
    return {"left": c.left_param, "lcal": bool(c.left_use_calibrated_value), "rel": crit.SPELLINGS[c.operator],
            "right": c.right_param, "rcal": bool(c.right_use_calibrated_value) if two else None,
            "value": None if two else str(c.right_value)}


def _lib_group(g):
    from space_packet_parser.xtce import comparisons
    if isinstance(g, comparisons.Anded):
        return {"t": "and", "conds": [_lib_cond(c) for c in g.conditions], "subs": [_lib_group(s) for s in g.ors]}
    if isinstance(g, comparisons.Ored):
        return {"t": "or", "conds": [_lib_cond(c) for c in g.conditions], "subs": [_lib_group(s) for s in g.ands]}
    raise DumpError(f"unexpected group {type(g)}")


def lib_match(criteria):
    """canonical form of a list of MatchCriteria objects"""
    from space_packet_parser.xtce import comparisons
    if criteria is None:
        return None
    if len(criteria) == 1 and isinstance(criteria[0], comparisons.BooleanExpression):
        e = criteria[0].expression
        if isinstance(e, comparisons.Condition):
            return {"kind": "bool", "expr": {"t": "cond", "cond": _lib_cond(e)}}
        return {"kind": "bool", "expr": _lib_group(e)}
    items = []
    for c in criteria:
        if not isinstance(c, comparisons.Comparison):
            raise DumpError(f"unexpected criterion {type(c)} in a comparison list")
        items.append(_lib_cmp(c))
    return {"kind": "comparisons", "items": items}


def lib_cal(c):
    from space_packet_parser.xtce import calibrators
    if c is None:
        return None
    if isinstance(c, calibrators.PolynomialCalibrator):
        return {"t": "poly", "terms": [[float(t.coefficient), int(t.exponent)] for t in c.coefficients]}
    if isinstance(c, calibrators.SplineCalibrator):
        return {"t": "spline", "points": [[float(p.raw), float(p.calibrated)] for p in c.points], "order": int(c.order),
                "extrapolate": bool(c.extrapolate)}
    raise DumpError(f"unexpected calibrator {type(c)}")


def probe_adjuster(f):
    if f is None:
        return None
    try:
        b = f(0)
        m = f(1) - b
        vals = {x: f(x) for x in (2, 7, 1000)}
    except Exception as e:   # an adjuster that cannot be evaluated at a probe point has no recoverable slope / intercept
        raise DumpError(f"length adjuster raised {e!r} at one of the probe points 0, 1, 2, 7, 1000")
    for x, v in vals.items():
        if v != m * x + b:
            raise DumpError(f"length adjuster is not linear: f({x}) = {v}, expected {m * x + b}")
    if not isinstance(b, int) or not isinstance(m, int):
        raise DumpError(f"length adjuster does not return integers: f(0)={b!r}, f(1)={f(1)!r}")
    return [int(m), int(b)]


def _lib_lookup(lst):
    return {"t": "lookup", "entries": [{"match": lib_match(d.match_criteria), "value": float(d.lookup_value)}
                                       for d in lst]}


def lib_enc(e):
    from space_packet_parser.xtce import encodings
    if isinstance(e, encodings.IntegerDataEncoding):
        return {"k": "int", "bits": int(e.size_in_bits), "sign": "unsigned" if e.encoding == "unsigned" else "signed",
                "order": e.byte_order, "dcal": lib_cal(e.default_calibrator),
                "ccals": [{"match": lib_match(c.match_criteria), "cal": lib_cal(c.calibrator)}
                          for c in e.context_calibrators] if e.context_calibrators else None}
    if isinstance(e, encodings.FloatDataEncoding):
        fmt = "IEEE754" if e.encoding in ("IEEE754", "IEEE754_1985") else e.encoding
        return {"k": "float", "bits": int(e.size_in_bits), "fmt": fmt, "order": e.byte_order,
                "dcal": lib_cal(e.default_calibrator),
                "ccals": [{"match": lib_match(c.match_criteria), "cal": lib_cal(c.calibrator)}
                          for c in e.context_calibrators] if e.context_calibrators else None}
    if isinstance(e, encodings.BinaryDataEncoding):
        if e.fixed_size_in_bits is not None:
            ln = {"t": "fixed", "bits": int(e.fixed_size_in_bits)}
        elif e.size_reference_parameter is not None:
            ln = {"t": "dyn", "ref": e.size_reference_parameter, "cal": bool(e.use_calibrated_value),
                  "adj": probe_adjuster(e.linear_adjuster)}
        else:
            ln = _lib_lookup(e.size_discrete_lookup_list)
        return {"k": "bin", "len": ln}
    if isinstance(e, encodings.StringDataEncoding):
        if e.fixed_length:
            ln = {"t": "fixed", "bits": int(e.fixed_length)}
        elif e.dynamic_length_reference:
            ln = {"t": "dyn", "ref": e.dynamic_length_reference, "cal": bool(e.use_calibrated_value),
                  "adj": probe_adjuster(e.length_linear_adjuster)}
        else:
            ln = _lib_lookup(e.discrete_lookup_length)
        cs = e.encoding
        order = getattr(e, "byte_order", None)
        if cs not in MULTIBYTE and not cs.endswith("LE") and not cs.endswith("BE"):
            order = None
        if cs.endswith("LE"):
            order = LE
        elif cs.endswith("BE"):
            order = BE
        if e.leading_length_size:
            delim = {"t": "lead", "bits": int(e.leading_length_size)}
        elif e.termination_character:
            delim = {"t": "term", "hex": bytes(e.termination_character).hex()}
        else:
            delim = None
        return {"k": "str", "charset": cs[:6] if cs.startswith("UTF-16") or cs.startswith("UTF-32") else cs,
                "order": order, "len": ln, "delim": delim}
    raise DumpError(f"unexpected encoding {type(e)}")


def lib_dump(defn):
    """canonical structural dump of a library definition (independent of the library's __eq__)"""
    from space_packet_parser.xtce import containers, parameter_types, parameters
    types = {}
    for name, t in defn.parameter_types.items():
        d = {"class": type(t).__name__, "unit": _s(t.unit), "enc": lib_enc(t.encoding)}
        if t.name != name:
            raise DumpError(f"parameter type key {name} holds {t.name}")
        if isinstance(t, parameter_types.EnumeratedParameterType):
            d["enum"] = sorted([[repr(k), lab] for k, lab in t.enumeration.items()])
        if isinstance(t, parameter_types.TimeParameterType):
            d["epoch"] = _s(t.epoch)
            d["offset_from"] = _s(t.offset_from)
        types[name] = d
    params = {}
    for name, p in defn.parameters.items():
        if p.name != name:
            raise DumpError(f"parameter key {name} holds {p.name}")
        params[name] = {"type": p.parameter_type.name, "short": _s(p.short_description), "long": _s(p.long_description)}
    conts = {}
    for name, c in defn.containers.items():
        if c.name != name:
            raise DumpError(f"container key {name} holds {c.name}")
        entries = []
        for e in c.entry_list:
            if isinstance(e, parameters.Parameter):
                entries.append(["p", e.name])
            elif isinstance(e, containers.SequenceContainer):
                entries.append(["c", e.name])
            else:
                raise DumpError(f"unexpected entry {type(e)}")
        conts[name] = {"entries": entries, "base": c.base_container_name,
                       "match": lib_match(c.restriction_criteria) if c.restriction_criteria else None,
                       "abstract": bool(c.abstract), "short": _s(c.short_description), "long": _s(c.long_description),
                       "inheritors": sorted(c.inheritors)}
        if len(set(c.inheritors)) != len(c.inheritors):
            conts[name]["inheritors_duplicated"] = list(c.inheritors)
    return {"types": types, "params": params, "containers": conts}


def diff(a, b, path=""):
    """first difference between two canonical dumps, as text (None if equal)"""
    if type(a) is not type(b) and not (isinstance(a, (int, float)) and isinstance(b, (int, float))):
        return f"{path}: {a!r} != {b!r}"
    if isinstance(a, dict):
        for k in sorted(set(a) | set(b), key=str):
            if k not in a:
                return f"{path}/{k}: missing on the left, right has {b[k]!r}"
            if k not in b:
                return f"{path}/{k}: missing on the right, left has {a[k]!r}"
            d = diff(a[k], b[k], f"{path}/{k}")
            if d:
                return d
        return None
    if isinstance(a, list):
        if len(a) != len(b):
            return f"{path}: lengths {len(a)} != {len(b)}: {a!r} vs {b!r}"
        for i, (x, y) in enumerate(zip(a, b)):
            d = diff(x, y, f"{path}[{i}]")
            if d:
                return d
        return None
    if isinstance(a, float) and isinstance(b, float):
        return None if (a == b or (a != a and b != b)) else f"{path}: {a!r} != {b!r}"
    return None if a == b else f"{path}: {a!r} != {b!r}"
