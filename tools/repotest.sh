#!/bin/sh
# Runs the repository's baseline suite (command from /root/.vp/BASELINE.json) and prints the summary line.
cd /repo && /venv/bin/python -m pytest -ra -q -p no:cacheprovider --timeout=900 --continue-on-collection-errors 2>&1 | grep -E "^(FAILED|ERROR)|passed|failed" | tail -8
