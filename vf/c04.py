"""C04 – integer and float fields decode correctly at every size, offset and byte order."""
import math

from hypothesis import strategies as st

from vf import refbits
from vf.runner import exc_sig, hyp_run

PROPERTY = "C04"
LEVEL = "exploration"
RULE = ("Parameter.parse on a packet whose cursor is preset. Exhaustive parts: every bit pattern of integer widths "
        "1..10 (thorough: 1..16) x {unsigned, signed, twosComplement} x offsets 0..7 (x both byte orders for widths 8 and "
        "16); all 65536 binary16 patterns x offsets (quick: 0 and one seed-chosen; thorough: all 8) x both byte orders. "
        "Generated part (Hypothesis): integer widths 1..80 (and up to 256), IEEE 32/64 and MIL-STD-1750A with boundary "
        "classes (+-0, min/max subnormal, min/max normal, +-inf, quiet/signalling NaN with payloads, mantissa -2^23 and "
        "2^23-1, exponent -128 and 127) and random patterns, offsets 0..7 plus large offsets, both byte orders (little-"
        "endian only for whole-byte widths); a quarter of the generated fields are obtained through from_xml of an own "
        "rendering (defaults written or omitted, optional `signed` attribute on the parameter type), and some integer "
        "fields carry a context calibrator whose criterion does not hold (the value must stay an integer). Oracle: bit-string/Fraction reference (vf/refbits.py): value equal (floats "
        "bit-for-bit incl. sign of zero, NaN==NaN), int-based value for integer encodings and float-based for float "
        "encodings, raw_value == value, cursor advanced by the width. Non-trivial: offset != 0, or little-endian, or "
        "signed with sign bit set, or a float from a boundary class; distinct by (encoding, width, order, offset, pattern).")
ASSUMPTIONS = ["IEEE-754 / MIL-STD-1750A semantics as implemented in vf/refbits.py (cross-checked against struct for "
               "all binary16 values in this check's own self-test part)",
               "little-endian is only claimed for whole-byte widths"]
EXHAUSTIVE = {"quick": False, "thorough": False}

BE, LE = "mostSignificantByteFirst", "leastSignificantByteFirst"
_cache = {}


def _param_xml(enc):
    """the same parameter obtained through from_xml of an own rendering: defaults omitted where possible, and the
    optional `signed` attribute of the parameter type present (the data encoding decides how the bits are read)"""
    from lxml import etree
    from space_packet_parser.xtce import parameter_types, parameters
    x = enc["xml"]
    attrib = {"sizeInBits": str(enc["bits"])}
    if enc["k"] == "int":
        if not (x.get("omit") and enc["sign"] == "unsigned"):
            attrib["encoding"] = enc["sign"]
        tag, ttag = "IntegerDataEncoding", "IntegerParameterType"
    else:
        if not (x.get("omit") and enc["fmt"] == "IEEE754"):
            attrib["encoding"] = enc["fmt"]
        tag, ttag = "FloatDataEncoding", "FloatParameterType"
    if not (x.get("omit") and enc["order"] == BE):
        attrib["byteOrder"] = enc["order"]
    tattrib = {"name": "T"}
    if x.get("signed") is not None and enc["k"] == "int":
        tattrib["signed"] = x["signed"]
    t = etree.Element(ttag, tattrib)
    t.append(etree.Element("UnitSet"))
    t.append(etree.Element(tag, attrib))
    t = etree.fromstring(etree.tostring(t))
    cls = parameter_types.IntegerParameterType if enc["k"] == "int" else parameter_types.FloatParameterType
    return parameters.Parameter("P", cls.from_xml(t))


def _param_never(enc):
    """integer encoding carrying a context calibrator whose criterion does NOT hold for this field (it compares the
    field's own raw value with a different number): the value stays uncalibrated, i.e. an integer"""
    from space_packet_parser.xtce import calibrators, comparisons, encodings, parameter_types, parameters
    cc = calibrators.ContextCalibrator(
        [comparisons.Comparison(str(enc["never"]), "P", "==", use_calibrated_value=False)],
        calibrators.PolynomialCalibrator([calibrators.PolynomialCoefficient(2.0, 1)]))
    e = encodings.IntegerDataEncoding(enc["bits"], enc["sign"], byte_order=enc["order"], context_calibrators=[cc])
    return parameters.Parameter("P", parameter_types.IntegerParameterType("T", e))


def _param(enc):
    if enc.get("xml"):
        return _param_xml(enc)
    if enc.get("never") is not None:
        return _param_never(enc)
    key = (enc["k"], enc["bits"], enc.get("sign"), enc.get("fmt"), enc["order"])
    p = _cache.get(key)
    if p is None:
        from space_packet_parser.xtce import encodings, parameter_types, parameters
        if enc["k"] == "int":
            e = encodings.IntegerDataEncoding(enc["bits"], enc["sign"], byte_order=enc["order"])
            t = parameter_types.IntegerParameterType("T", e)
        else:
            e = encodings.FloatDataEncoding(enc["bits"], encoding=enc["fmt"], byte_order=enc["order"])
            t = parameter_types.FloatParameterType("T", e)
        p = parameters.Parameter("P", t)
        _cache[key] = p
    return p


def expected_value(enc, fbits):
    if enc["k"] == "int":
        return refbits.ref_int(fbits, enc["sign"], enc["order"])
    if enc["fmt"] == "MILSTD_1750A":
        return refbits.ref_1750a(fbits, enc["order"])
    return refbits.ref_ieee(fbits, enc["order"])


def check_field(enc, buf: bytes, offset: int, allbits=None):
    """Returns None or (kind, detail)."""
    from space_packet_parser import packets
    n = enc["bits"]
    if allbits is None:
        allbits = refbits.bits_of(buf)
    fbits = allbits[offset:offset + n]
    assert len(fbits) == n
    exp = expected_value(enc, fbits)
    param = _param(enc)
    pkt = packets.CCSDSPacket(raw_data=buf)
    pkt.raw_data.pos = offset
    try:
        param.parse(pkt)
    except Exception as e:
        return "raised:" + exc_sig(e), f"{enc} at offset {offset}, field bits {fbits}: raised {e!r}"
    v = pkt["P"]
    what = f"{enc} at offset {offset}, field bits {fbits}"
    if enc["k"] == "int":
        if not isinstance(v, int) or isinstance(v, (bool, float)):
            return "int-type", f"{what}: value {v!r} of type {type(v).__mro__}"
        if int(v) != exp:
            return "int-value", f"{what}: value {int(v)} expected {exp}"
        rv = v.raw_value
        if not isinstance(rv, int) or isinstance(rv, bool) or int(rv) != exp:
            return "int-raw", f"{what}: raw_value {rv!r} expected {exp}"
    else:
        if not isinstance(v, float):
            return "float-type", f"{what}: value {v!r} of type {type(v).__mro__}"
        if not refbits.same_float(float(v), exp):
            return "float-value", f"{what}: value {float(v)!r} expected {exp!r}"
        rv = v.raw_value
        if not isinstance(rv, float) or not refbits.same_float(float(rv), exp):
            return "float-raw", f"{what}: raw_value {rv!r} expected {exp!r}"
    if pkt.raw_data.pos != offset + n:
        return "cursor", f"{what}: cursor {pkt.raw_data.pos} expected {offset + n}"
    if list(pkt.keys()) != ["P"]:
        return "packet-items", f"{what}: packet keys {list(pkt.keys())}"
    return None


def _embed(fbits: str, offset: int, fill: str = "10"):
    pre = (fill * (offset // 2 + 1))[:offset]
    total = offset + len(fbits)
    pad = (-total) % 8
    post = ("01" * 8)[:pad] + "10100101"
    allbits = pre + fbits + post
    return refbits.bytes_of_bits(allbits), allbits


def part_int_exhaustive(ctx, widths, offsets):
    n = nt = 0
    for w in widths:
        orders = [BE, LE] if w % 8 == 0 else [BE]
        for sign in ("unsigned", "signed", "twosComplement"):
            for order in orders:
                enc = {"k": "int", "bits": w, "sign": sign, "order": order}
                for offset in offsets:
                    for pat in range(2 ** w):
                        fbits = format(pat, f"0{w}b")
                        buf, allbits = _embed(fbits, offset)
                        r = check_field(enc, buf, offset, allbits)
                        n += 1
                        if offset or order == LE or (sign != "unsigned" and fbits[0] == "1"):
                            nt += 1
                        if r:
                            ctx.fail(r[0], r[1], {"enc": enc, "buf": buf.hex(), "offset": offset}, bucket=r[0])
                    ctx.cls(f"int exhaustive w={w}", 2 ** w)
        ctx.domain(f"int width {w}: all patterns x 3 signs x {len(offsets)} offsets x {len(orders)} orders",
                   2 ** w * 3 * len(offsets) * len(orders))
    ctx.sample("int-exhaustive", {"widths": list(widths), "offsets": list(offsets)})
    ctx.count(n)
    ctx.nontrivial_distinct(nt)


def part_f16_exhaustive(ctx, offsets, lo, hi):
    n = nt = 0
    for order in (BE, LE):
        for fmt in ("IEEE754",):
            enc = {"k": "float", "bits": 16, "fmt": fmt, "order": order}
            for offset in offsets:
                for pat in range(lo, hi):
                    fbits = format(pat, "016b")
                    buf, allbits = _embed(fbits, offset)
                    r = check_field(enc, buf, offset, allbits)
                    n += 1
                    if offset or order == LE or refbits.ieee_class(fbits, order) != "normal":
                        nt += 1
                    if r:
                        ctx.fail(r[0], r[1], {"enc": enc, "buf": buf.hex(), "offset": offset}, bucket=r[0])
    ctx.count(n)
    ctx.nontrivial_distinct(nt)
    ctx.cls("binary16 exhaustive", n)
    ctx.domain("binary16 patterns x offsets x byte orders", n)
    ctx.sample("binary16-exhaustive", {"patterns": [lo, hi], "offsets": list(offsets)})


def part_selftest(ctx):
    """Cross-check of the reference decoder itself against struct for every binary16 value and a
    sweep of binary32/64 values (guards the oracle, not the library)."""
    import struct
    for pat in range(65536):
        a = refbits.ref_ieee(format(pat, "016b"))
        b = struct.unpack(">e", pat.to_bytes(2, "big"))[0]
        if not refbits.same_float(a, b):
            raise AssertionError(f"reference binary16 decoder disagrees with struct at {pat:#06x}: {a} vs {b}")
    for i in range(0, 2 ** 32, 2 ** 32 // 20011):
        a = refbits.ref_ieee(format(i, "032b"))
        b = struct.unpack(">f", i.to_bytes(4, "big"))[0]
        if not refbits.same_float(a, b):
            raise AssertionError(f"reference binary32 decoder disagrees with struct at {i:#x}")
    for i in range(0, 2 ** 64, 2 ** 64 // 20011):
        a = refbits.ref_ieee(format(i, "064b"))
        b = struct.unpack(">d", i.to_bytes(8, "big"))[0]
        if not refbits.same_float(a, b):
            raise AssertionError(f"reference binary64 decoder disagrees with struct at {i:#x}")
    ctx.note("reference IEEE decoder cross-checked against struct: all binary16, 20011 binary32, 20011 binary64 patterns")


def _int_patterns(w):
    pats = {0, 1, 2 ** w - 1, 2 ** (w - 1), 2 ** (w - 1) - 1,
            int(("10" * w)[:w], 2), int(("01" * w)[:w], 2)}
    # byte-distinct 01 02 03 ...
    nb = (w + 7) // 8
    bd = int.from_bytes(bytes(range(1, nb + 1)), "big") & (2 ** w - 1)
    pats.add(bd)
    return sorted(pats)


F32_SPECIAL = [0x00000000, 0x80000000, 0x00000001, 0x007FFFFF, 0x00800000, 0x7F7FFFFF, 0x7F800000, 0xFF800000,
               0x7FC00000, 0x7FC00001, 0x7F800001, 0xFFC12345, 0x3F800000, 0xBF800000, 0x80000001, 0x807FFFFF,
               0x3EAAAAAB, 0x4B800000, 0x7FFFFFFF, 0xFFFFFFFF]
F64_SPECIAL = [0x0, 0x8000000000000000, 0x1, 0x000FFFFFFFFFFFFF, 0x0010000000000000, 0x7FEFFFFFFFFFFFFF,
               0x7FF0000000000000, 0xFFF0000000000000, 0x7FF8000000000000, 0x7FF0000000000001, 0xFFF8000000012345,
               0x3FF0000000000000, 0xBFF0000000000000, 0x8000000000000001, 0x3FD5555555555555, 0x7FFFFFFFFFFFFFFF,
               0xFFFFFFFFFFFFFFFF, 0x4340000000000000]
MIL_SPECIAL = [0x00000000, 0x40000000, 0x80000000, 0x7FFFFF7F, 0x7FFFFF80, 0x80000080, 0x8000007F, 0x00000100,
               0x0000017F, 0x00000180, 0xFFFFFF00, 0xFFFFFFFF, 0x400000FF, 0x40000001, 0xC0000000, 0x7FFFFF00,
               0x800000FF, 0x000001FF]


@st.composite
def gen_case(draw):
    kind = draw(st.sampled_from(["int", "int", "f32", "f64", "mil", "f16"]))
    if kind == "int":
        w = draw(st.one_of(st.integers(1, 80), st.sampled_from([8, 16, 24, 32, 40, 48, 56, 64, 72, 80, 128, 256]),
                           st.integers(81, 256)))
        sign = draw(st.sampled_from(["unsigned", "signed", "twosComplement"]))
        order = draw(st.sampled_from([BE, LE])) if w % 8 == 0 else BE
        enc = {"k": "int", "bits": w, "sign": sign, "order": order}
        nb = (w + 7) // 8
        pat = draw(st.one_of(st.sampled_from(_int_patterns(w)), st.integers(0, 2 ** w - 1),
                             st.binary(min_size=nb, max_size=nb).map(lambda b: int.from_bytes(b, "big") % 2 ** w)))
        cls = "special" if pat in _int_patterns(w) else "random"
    else:
        w = {"f16": 16, "f32": 32, "f64": 64, "mil": 32}[kind]
        fmt = "MILSTD_1750A" if kind == "mil" else draw(st.sampled_from(["IEEE754", "IEEE754_1985"]))
        order = draw(st.sampled_from([BE, LE]))
        enc = {"k": "float", "bits": w, "fmt": fmt, "order": order}
        special = {"f16": [0, 0x8000, 1, 0x3FF, 0x400, 0x7BFF, 0x7C00, 0xFC00, 0x7E00, 0x7C01, 0xFE01, 0x3C00],
                   "f32": F32_SPECIAL, "f64": F64_SPECIAL, "mil": MIL_SPECIAL}[kind]
        pat = draw(st.one_of(st.sampled_from(special), st.integers(0, 2 ** w - 1),
                             st.binary(min_size=w // 8, max_size=w // 8).map(lambda b: int.from_bytes(b, "big")),
                             st.binary(min_size=w // 8, max_size=w // 8).map(lambda b: int.from_bytes(b, "big"))))
        cls = "special" if pat in special else "random"
        if order == LE:
            # the special value is meant in value order; store it byte-reversed for little-endian
            pat = int(refbits.reverse_bytes(format(pat, f"0{w}b")), 2)
    if draw(st.integers(0, 3)) == 0:
        enc["xml"] = {"omit": draw(st.booleans()), "signed": draw(st.sampled_from([None, "true", "false"]))}
    elif kind == "int" and draw(st.integers(0, 5)) == 0:
        # a context calibrator that does not apply: compare the own raw value with a number it does not have
        enc["never"] = refbits.ref_int(format(pat, f"0{w}b"), enc["sign"], enc["order"]) + draw(st.sampled_from([1, -1, 7]))
    offset = draw(st.one_of(st.integers(0, 7), st.integers(0, 7), st.integers(8, 4000)))
    fbits = format(pat, f"0{w}b")
    pre = draw(st.integers(0, 2 ** min(offset, 16) - 1)) if offset else 0
    prebits = (format(pre, f"0{min(offset, 16)}b") * (offset // 16 + 2))[:offset] if offset else ""
    npost = (-(offset + w)) % 8 + 8 * draw(st.integers(0, 2))
    post = draw(st.integers(0, 2 ** npost - 1)) if npost else 0
    postbits = format(post, f"0{npost}b") if npost else ""
    buf = refbits.bytes_of_bits(prebits + fbits + postbits)
    return {"enc": enc, "buf": buf.hex(), "offset": offset, "cls": cls}


def check_generated(ctx, case):
    enc, offset = case["enc"], case["offset"]
    buf = bytes.fromhex(case["buf"])
    ctx.count()
    fbits = refbits.bits_of(buf)[offset:offset + enc["bits"]]
    label = enc["k"] + ("/" + enc.get("fmt", "") if enc["k"] == "float" else "") + f"/{enc['bits'] if enc['k']=='float' else ('<=64' if enc['bits']<=64 else '>64')}"
    ctx.cls("generated " + label)
    ctx.cls(f"generated offset%8={offset % 8}")
    nontriv = offset != 0 or enc["order"] == LE
    if enc["k"] == "int":
        nontriv = nontriv or (enc["sign"] != "unsigned" and refbits.reverse_bytes(fbits)[0] == "1"
                              if enc["order"] == LE else enc["sign"] != "unsigned" and fbits[0] == "1")
    else:
        nontriv = nontriv or case.get("cls") == "special"
        if enc["fmt"] != "MILSTD_1750A":
            ctx.cls("generated float class " + refbits.ieee_class(fbits, enc["order"]))
    if nontriv:
        ctx.nontrivial((enc, offset, fbits))
    ctx.sample("generated " + label, {"enc": enc, "offset": offset, "field_bits": fbits})
    r = check_field(enc, buf, offset)
    if r:
        ctx.fail(r[0], r[1], case, bucket=r[0])


def part_generated(ctx, examples):
    hyp_run(ctx, gen_case(), check_generated, examples)


def replay_case(ctx, case):
    if "cls" not in case:
        case = dict(case, cls="replay")
    check_generated(ctx, case)


PARTS = {"int_exhaustive": part_int_exhaustive, "f16_exhaustive": part_f16_exhaustive, "generated": part_generated,
         "selftest": part_selftest}
REPLAY = {k: replay_case for k in PARTS}
KNOWN = {}


def plan(tier, seed):
    tasks = [("selftest", {})]
    all_off = list(range(8))
    if tier == "quick":
        tasks.append(("int_exhaustive", {"widths": [1, 2, 3, 4, 5, 6, 7], "offsets": all_off}))
        tasks.append(("int_exhaustive", {"widths": [8], "offsets": all_off}))
        tasks.append(("int_exhaustive", {"widths": [9], "offsets": all_off}))
        tasks.append(("int_exhaustive", {"widths": [10], "offsets": all_off}))
        offs = [0, 1 + seed % 7]
        for i in range(8):
            tasks.append(("f16_exhaustive", {"offsets": offs, "lo": i * 8192, "hi": (i + 1) * 8192}))
        for _ in range(16):
            tasks.append(("generated", {"examples": 1200}))
    else:
        tasks.append(("int_exhaustive", {"widths": list(range(1, 11)), "offsets": all_off}))
        for w in (11, 12, 13, 14):
            tasks.append(("int_exhaustive", {"widths": [w], "offsets": all_off}))
        for w in (15, 16):
            for o in all_off:
                tasks.append(("int_exhaustive", {"widths": [w], "offsets": [o]}))
        for i in range(16):
            tasks.append(("f16_exhaustive", {"offsets": all_off, "lo": i * 4096, "hi": (i + 1) * 4096}))
        for _ in range(32):
            tasks.append(("generated", {"examples": 20000}))
    return tasks
