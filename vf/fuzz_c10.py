#!/venv/bin/python
"""atheris/libFuzzer target for C10: bytes -> (source kind, read size, k, route, stream); the framing
validity predicate of vf/c10.py is the oracle inside the target.

usage: fuzz_c10.py <outdir> [libFuzzer flags]   – writes <outdir>/violation.json on a violation
"""
import json
import os
import sys

VERIF = os.path.dirname(os.path.dirname(os.path.abspath(__file__)))
REPO = os.environ.get("VERIF_REPO", "/repo")
sys.path[0:0] = [REPO, VERIF]
sys.path.append(os.path.join(VERIF, ".deps"))
sys.dont_write_bytecode = True
import logging  # noqa: E402

logging.getLogger("space_packet_parser").addHandler(logging.NullHandler())
logging.getLogger("space_packet_parser").propagate = False

try:
    import atheris
except Exception as e:  # pragma: no cover
    print("ATHERIS-UNAVAILABLE", e)
    sys.exit(0)

with atheris.instrument_imports(include=["space_packet_parser"]):
    import space_packet_parser  # noqa: F401
    from space_packet_parser import packets  # noqa: F401
    from space_packet_parser.xtce import definitions  # noqa: F401

from vf import c10  # noqa: E402

OUT = sys.argv[1]
READ_SIZES = (None, 1, 2, 3, 5, 6, 7, 8, 13, 4096)


def one_input(data: bytes):
    fdp = atheris.FuzzedDataProvider(data)
    kind = c10.KINDS[fdp.ConsumeIntInRange(0, len(c10.KINDS) - 1)]
    rs = READ_SIZES[fdp.ConsumeIntInRange(0, len(READ_SIZES) - 1)]
    k = fdp.ConsumeIntInRange(0, 8)
    route = ("ccsds", "pgen")[fdp.ConsumeIntInRange(0, 1)]
    nsched = fdp.ConsumeIntInRange(0, 6)
    sched = [fdp.ConsumeIntInRange(1, 9) for _ in range(nsched)]
    progress = fdp.ConsumeIntInRange(0, 3) == 0
    stream = fdp.ConsumeBytes(fdp.remaining_bytes())
    items, ended, exc = c10.drive(stream, k, kind, rs, route, sched, progress)
    r = c10.judge(stream, k, items, ended, exc)
    if r:
        case = {"data": stream.hex(), "k": k, "rs": [rs], "sched": sched, "fixed": [kind, route], "progress": progress}
        with open(os.path.join(OUT, "violation.json"), "w") as f:
            json.dump({"kind": r[0], "detail": f"{kind} source, read size {rs}, k={k}, route {route}, input "
                                               f"{stream[:40].hex()} ({len(stream)} bytes): {r[1]}", "case": case}, f)
        raise RuntimeError("C10 violation: " + r[1])


def main():
    corpus = os.path.join(OUT, "corpus")
    os.makedirs(corpus, exist_ok=True)
    argv = [sys.argv[0], corpus] + sys.argv[2:]
    atheris.Setup(argv, one_input)
    atheris.Fuzz()


if __name__ == "__main__":
    main()
