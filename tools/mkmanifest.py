#!/venv/bin/python
"""Regenerates /verif/MANIFEST.json from the table below (the table is the source of truth)."""
import json
import os

VERIF = os.path.dirname(os.path.dirname(os.path.abspath(__file__)))

# id -> (category, technique, level text, level note, design ref)
CHECKS = {
    "C03": ("exploration",
            "exhaustive enumeration of small buffers + Hypothesis-generated buffers against a bit-string reference",
            "Every (buffer, p, n) over all 1-byte buffers and (thorough) all 2-byte buffers is enumerated and both "
            "reads are compared with an independent bit-string reference; larger buffers, every p mod 8 / n mod 8 "
            "cell and widths up to 1e5 bits are sampled with Hypothesis. Complete for <= 2-byte buffers, "
            "sampled beyond.",
            "Trusts Python's int(s, 2) / int.to_bytes; reads are only required to be right for p+n inside the buffer.",
            "DESIGN.md 3/C03"),
}

PENDING_REASON = "check not built yet in this round (planned, see DESIGN.md section 3); nothing is claimed for it"


def main():
    props = [json.loads(l) for l in open(os.path.join(VERIF, "properties.jsonl"))]
    checks, na = [], []
    for p in props:
        pid = p["id"]
        if pid in CHECKS:
            cat, tech, text, note, ref = CHECKS[pid]
            checks.append({
                "property_id": pid,
                "quick_cmd": f"./check.py {pid} --tier quick",
                "thorough_cmd": f"./check.py {pid} --tier thorough",
                "evidence_file": f"evidence/{pid}.json",
                "replay_cmd_template": f"./check.py {pid} --replay {{path}}",
                "engine": "vf",
                "level_claimed": {"category": cat, "text": text, "design_ref": ref},
                "level_note": note,
                "technique": tech,
            })
        else:
            na.append({"property_id": pid, "reason": PENDING_REASON})
    manifest = {
        "version": 1,
        "setup_cmd": "./setup.sh",
        "hooks": {
            "guard": "SPP_VERIF",
            "enable": "no source hooks: the harness wraps module attributes from outside; SPP_VERIF=1 is set by "
                      "check.py for form only",
            "baseline_off_cmd": "cd /repo && /venv/bin/python -m pytest -ra -q -p no:cacheprovider --timeout=900 "
                                "--continue-on-collection-errors",
            "source_commits": [],
            "add_only": True,
        },
        "engines": [{
            "name": "vf",
            "path": "vf/",
            "serves_properties": sorted(CHECKS),
            "kind_free_text": "Hypothesis strategies (incl. rule-based state machines), exhaustive enumeration of "
                              "finite sub-domains, atheris fuzzing supplement; independent reference decoder, "
                              "XML renderer and structural dumper as oracles; JSON replay files",
        }],
        "checks": checks,
        "not_applicable": na,
        "notes": "All checks: ./check.py <ID> --tier quick|thorough; exit 0 held / 1 VIOLATION / 2 harness error. "
                 "Known findings: known_findings.json. Seeded breakages: seeded/<id>/. See DESIGN.md.",
    }
    with open(os.path.join(VERIF, "MANIFEST.json"), "w") as f:
        json.dump(manifest, f, indent=1)
        f.write("\n")
    try:
        import sys
        sys.path.append(os.path.join(VERIF, ".deps"))
        import jsonschema
        jsonschema.validate(manifest, json.load(open("/root/.vp/MANIFEST.schema.json")))
        print("MANIFEST.json valid;", len(checks), "checks,", len(na), "not_applicable")
    except ImportError:
        print("MANIFEST.json written (jsonschema not available)")


if __name__ == "__main__":
    main()
