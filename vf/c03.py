"""C03 – bit-cursor reads return exactly the addressed bits and advance by the width."""
from hypothesis import strategies as st

from vf.runner import hyp_run

PROPERTY = "C03"
LEVEL = "exploration"
RULE = ("Exhaustive part: every 1-byte buffer and (thorough: every; quick: 8192 seed-strided) 2-byte buffer x every "
        "(p, n) with p+n <= 8*len, both read methods. Generated part (Hypothesis): buffers of 3..64 bytes from six "
        "pattern classes x every p mod 8 x widths 0..72, and widths up to 1e5 bits in 16 kB buffers; plus sequences of "
        "2..12 reads on ONE object with the cursor moved by the reads and by assignment in between. Oracle: "
        "int(bitstring[p:p+n], 2), its big-endian ceil(n/8)-byte form, cursor == p+n, buffer bytes and hash unchanged. "
        "Non-trivial: n > 0; distinct by (buffer, p, n) for enumerated cases (distinct by construction) and by hash of "
        "(buffer, p, n) for generated ones.")
ASSUMPTIONS = ["Python int/str conversions (int(s, 2), int.to_bytes) are correct",
               "reads are only required to be correct for p+n inside the buffer (as the property states)"]
EXHAUSTIVE = {"quick": False, "thorough": True}


def _lib():
    from space_packet_parser import packets
    return packets


def bits_of(buf: bytes) -> str:
    return "".join(f"{b:08b}" for b in buf)


def check_one(ctx, buf: bytes, p: int, n: int, bits=None, rec=True):
    """Returns None or (kind, detail)."""
    packets = _lib()
    if bits is None:
        bits = bits_of(buf)
    expected = int(bits[p:p + n] or "0", 2)
    exp_bytes = expected.to_bytes((n + 7) // 8, "big")
    raw = packets.RawPacketData(buf)
    h0 = hash(raw)
    # integer read
    raw.pos = p
    try:
        got = raw.read_as_int(n)
    except Exception as e:
        return "int-read-raised", f"read_as_int({n}) at pos {p} on {buf.hex()} raised {type(e).__name__}: {e}"
    if type(got) is not int or got != expected:
        return "int-read-value", f"read_as_int({n}) at pos {p} on {buf.hex()} = {got!r}, expected {expected}"
    if raw.pos != p + n:
        return "int-read-cursor", f"read_as_int({n}) at pos {p}: cursor {raw.pos}, expected {p + n}"
    # bytes read
    raw.pos = p
    try:
        gotb = raw.read_as_bytes(n)
    except Exception as e:
        return "bytes-read-raised", f"read_as_bytes({n}) at pos {p} on {buf.hex()} raised {type(e).__name__}: {e}"
    if not isinstance(gotb, bytes) or bytes(gotb) != exp_bytes:
        return "bytes-read-value", (f"read_as_bytes({n}) at pos {p} on {buf.hex()} = {bytes(gotb).hex()!r}, "
                                    f"expected {exp_bytes.hex()!r}")
    if raw.pos != p + n:
        return "bytes-read-cursor", f"read_as_bytes({n}) at pos {p}: cursor {raw.pos}, expected {p + n}"
    if bytes(raw) != buf or hash(raw) != h0 or len(raw) != len(buf):
        return "buffer-modified", f"buffer changed by reads at pos {p} width {n}"
    return None


def part_exhaustive(ctx, nbytes, lo, hi, stride=1, offset=0):
    pairs = [(p, n) for p in range(8 * nbytes + 1) for n in range(8 * nbytes - p + 1)]
    nontriv = sum(1 for _, n in pairs if n > 0)
    nbuf = 0
    for v in range(lo + offset, hi, stride):
        buf = v.to_bytes(nbytes, "big")
        bits = bits_of(buf)
        nbuf += 1
        for p, n in pairs:
            r = check_one(ctx, buf, p, n, bits)
            if r:
                ctx.fail(r[0], r[1], {"buf": buf.hex(), "p": p, "n": n}, bucket=r[0])
        if nbuf <= 2:
            ctx.sample(f"enumerated-{nbytes}-byte", {"buf": buf.hex(), "pairs": "all (p, n) with p+n <= %d" % (8 * nbytes)})
    ctx.count(nbuf * len(pairs))
    ctx.nontrivial_distinct(nbuf * nontriv)
    ctx.cls(f"enumerated {nbytes}-byte buffer cases", nbuf * len(pairs))
    ctx.domain(f"{nbytes}-byte buffers x (p,n)", nbuf * len(pairs))


PATTERNS = ["random", "ones", "zeros", "walking-one", "0f0f", "a5"]


@st.composite
def gen_case(draw):
    kind = draw(st.sampled_from(["small", "small", "small", "large"]))
    pattern = draw(st.sampled_from(PATTERNS))
    if kind == "small":
        length = draw(st.integers(3, 64))
    else:
        length = draw(st.sampled_from([4096, 16384]))
    if pattern == "random":
        if kind == "small":
            buf = draw(st.binary(min_size=length, max_size=length))
        else:
            seedb = draw(st.binary(min_size=16, max_size=64))
            buf = (seedb * (length // len(seedb) + 1))[:length]
    elif pattern == "ones":
        buf = b"\xff" * length
    elif pattern == "zeros":
        buf = b"\x00" * length
    elif pattern == "walking-one":
        k = draw(st.integers(0, 8 * length - 1))
        buf = (1 << (8 * length - 1 - k)).to_bytes(length, "big")
    elif pattern == "0f0f":
        buf = b"\x0f" * length
    else:
        buf = b"\xa5" * length
    total = 8 * length
    pm = draw(st.integers(0, 7))
    if kind == "small":
        n = draw(st.integers(0, min(72, total - pm)))
        p = pm + 8 * draw(st.integers(0, (total - n - pm) // 8))
    else:
        n = draw(st.one_of(st.integers(0, 100_000), st.integers(0, 12_000).map(lambda x: 8 * x)))
        n = min(n, total - pm)
        p = pm + 8 * draw(st.integers(0, (total - n - pm) // 8))
    return {"buf": buf.hex(), "p": p, "n": n, "pattern": pattern, "kind": kind}


def check_generated(ctx, case):
    buf = bytes.fromhex(case["buf"])
    p, n = case["p"], case["n"]
    ctx.count()
    label = f"{case.get('kind', 'replay')}/{case.get('pattern', '?')}"
    ctx.cls("generated " + label)
    ctx.cls(f"generated p%8={p % 8} n%8={n % 8}")
    if n > 0:
        ctx.nontrivial((case["buf"][:64], len(buf), p, n))
    ctx.sample("generated " + label, {"buf": case["buf"], "p": p, "n": n})
    r = check_one(ctx, buf, p, n)
    if r:
        ctx.fail(r[0], r[1], case, bucket=r[0])


def part_generated(ctx, examples):
    hyp_run(ctx, gen_case(), check_generated, examples)


# ---- a sequence of reads on ONE object, the cursor moved by the reads and by assignment in between: every read must
# still be a pure function of (buffer, cursor, width) – nothing may be remembered from an earlier read

@st.composite
def gen_sequence(draw):
    length = draw(st.one_of(st.integers(0, 4), st.integers(1, 24)))
    buf = draw(st.one_of(st.binary(min_size=length, max_size=length), st.just(b"\xff" * length)))
    total = 8 * length
    ops = []
    for _ in range(draw(st.integers(2, 12))):
        kind = draw(st.sampled_from(["int", "bytes", "bytes"]))
        n = draw(st.one_of(st.integers(0, min(total, 16)), st.integers(0, total), st.just(total)))
        mode = draw(st.sampled_from(["set", "set", "continue"]))
        p = draw(st.integers(0, total - n)) if total - n > 0 else 0
        ops.append({"k": kind, "n": n, "set": p if mode == "set" else None})
    return {"buf": buf.hex(), "ops": ops}


def check_sequence(ctx, case):
    packets = _lib()
    buf = bytes.fromhex(case["buf"])
    bits = bits_of(buf)
    raw = packets.RawPacketData(buf)
    ctx.count()
    ctx.cls("sequence of reads on one object")
    ctx.nontrivial(case)
    ctx.sample("sequence", case)
    pos = 0
    for i, op in enumerate(case["ops"]):
        n = op["n"]
        if op["set"] is not None:
            raw.pos = pos = op["set"]
        if pos + n > len(bits):
            raw.pos = pos = len(bits) - n   # keep the read inside the buffer (the property's precondition)
        expected = int(bits[pos:pos + n] or "0", 2)
        what = f"op {i} of {case['ops']} on {buf.hex()}: {'read_as_int' if op['k'] == 'int' else 'read_as_bytes'}({n}) at pos {pos}"
        try:
            got = raw.read_as_int(n) if op["k"] == "int" else raw.read_as_bytes(n)
        except Exception as e:
            return ctx.fail("sequence-raised", f"{what} raised {type(e).__name__}: {e}", case,
                            bucket="sequence-raised:" + type(e).__name__)
        exp = expected if op["k"] == "int" else expected.to_bytes((n + 7) // 8, "big")
        if (bytes(got) if op["k"] == "bytes" else got) != exp:
            return ctx.fail("sequence-value", f"{what} = {got!r}, expected {exp!r}", case)
        pos += n
        if raw.pos != pos:
            return ctx.fail("sequence-cursor", f"{what}: cursor {raw.pos}, expected {pos}", case)
    if bytes(raw) != buf:
        return ctx.fail("buffer-modified", "buffer changed by a sequence of reads", case)
    return None


def part_sequence(ctx, examples):
    hyp_run(ctx, gen_sequence(), check_sequence, examples)


def replay_any(ctx, case):
    check_generated(ctx, case)


PARTS = {"exhaustive": part_exhaustive, "generated": part_generated, "sequence": part_sequence}
REPLAY = {"exhaustive": replay_any, "generated": replay_any, "sequence": check_sequence}
KNOWN = {}


def plan(tier, seed):
    tasks = [("exhaustive", {"nbytes": 1, "lo": 0, "hi": 256})]
    if tier == "thorough":
        step = 65536 // 32
        for i in range(32):
            tasks.append(("exhaustive", {"nbytes": 2, "lo": i * step, "hi": (i + 1) * step}))
        for _ in range(16):
            tasks.append(("generated", {"examples": 6000}))
        for _ in range(8):
            tasks.append(("sequence", {"examples": 20000}))
    else:
        # 8192 buffers: stride 8 with a seed-dependent offset, all (p, n) kept
        step = 65536 // 16
        for i in range(16):
            tasks.append(("exhaustive", {"nbytes": 2, "lo": i * step, "hi": (i + 1) * step,
                                         "stride": 8, "offset": seed % 8}))
        for _ in range(12):
            tasks.append(("generated", {"examples": 1500}))
        for _ in range(4):
            tasks.append(("sequence", {"examples": 2500}))
    return tasks
