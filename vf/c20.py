"""C20 – parsed values are drop-in built-ins with a raw value and survive copying."""
import copy
import math
import multiprocessing
import pickle

from hypothesis import strategies as st

from vf.runner import exc_sig, hyp_run

PROPERTY = "C20"
LEVEL = "exploration"
RULE = ("Values of the five classes built directly (cls(value), cls(value, raw)) and obtained by decoding a field; "
        "Hypothesis draws value and raw value from boundary sets (0, +-1, 2^63, -2^64, 10^30; +-0.0, inf, nan, 5e-324, "
        "1.79e308; '', non-ASCII, astral, NUL text; b'', b'\\x00') and random values; raw values of every kind incl. the "
        "falsy ones 0, 0.0, '', b'', False. Oracle: a fixed list of ~60 operations per class (==, !=, <, <=, sorted, "
        "hash, dict key / set member, str, repr, format specs, + - * / // % **, unary, abs, round, int(), float(), bit "
        "ops; len, slicing, in, upper, encode, hex, decode, iteration) applied to the library value and to the plain "
        "built-in base(v) (bool(v) for the boolean class) must give equal results of the same built-in type or raise "
        "the same exception type; raw_value == given raw or == value when none was given; copy.copy, copy.deepcopy, "
        "pickle protocols 0-5 and a multiprocessing pipe preserve class, value, raw_value; for whole packets also "
        "item order, raw_data bytes, raw_data.pos, class and header/user_data views. Non-trivial: raw value falsy and "
        "different from the value, or NaN/inf/empty/huge value, or a packet with >= 8 items and pos > 0.")
ASSUMPTIONS = ["only the behaviours the statement lists are asserted (compare, hash, order, format, arithmetic, raw "
               "value, copy/deepcopy/pickle); serialisers that special-case the exact type bool are out of scope",
               "hash of NaN is identity-based in CPython >= 3.10 and is not compared"]
EXHAUSTIVE = {"quick": False, "thorough": False}

KINDS = ("int", "float", "str", "bytes", "bool")


def _classes():
    from space_packet_parser import common
    return {"int": (common.IntParameter, int), "float": (common.FloatParameter, float),
            "str": (common.StrParameter, str), "bytes": (common.BinaryParameter, bytes),
            "bool": (common.BoolParameter, int)}


# ---- JSON <-> python -----------------------------------------------------------------------------

def enc(v):
    if v is None:
        return {"t": "none"}
    if isinstance(v, bool):
        return {"t": "bool", "v": v}
    if isinstance(v, int):
        return {"t": "int", "v": str(v)}
    if isinstance(v, float):
        return {"t": "float", "v": v.hex() if math.isfinite(v) else repr(v)}
    if isinstance(v, str):
        return {"t": "str", "v": v}
    if isinstance(v, bytes):
        return {"t": "bytes", "v": v.hex()}
    raise TypeError(v)


def dec(j):
    t = j["t"]
    if t == "none":
        return None
    if t == "bool":
        return bool(j["v"])
    if t == "int":
        return int(j["v"])
    if t == "float":
        return float(j["v"]) if j["v"] in ("nan", "inf", "-inf") else float.fromhex(j["v"])
    if t == "str":
        return j["v"]
    return bytes.fromhex(j["v"])


def same(a, b, boolish=False):
    """equality of results: same built-in base type, floats bit-for-bit (NaN == NaN), recursive on containers.
    boolish: the value under test is the int-backed boolean, whose bit operations give int where bool gives bool
    (0 == False, 1 == True): results are compared by value with int and bool interchangeable."""
    if isinstance(a, float) or isinstance(b, float):
        if not (isinstance(a, float) and isinstance(b, float)):
            return False
        if a != a or b != b:
            return a != a and b != b
        return a == b and math.copysign(1, a) == math.copysign(1, b)
    if isinstance(a, (list, tuple)) and isinstance(b, (list, tuple)):
        return type(a) is type(b) and len(a) == len(b) and all(same(x, y, boolish) for x, y in zip(a, b))
    if isinstance(a, complex) or isinstance(b, complex):
        return isinstance(a, complex) and isinstance(b, complex) and (a == b or (a != a and b != b))
    if isinstance(b, bool):
        # the boolean class is int-backed by design: the object itself is an int equal to the bool
        return isinstance(a, int) and a == b and (boolish or isinstance(a, bool)
                                                   or type(a).__name__ == "BoolParameter")
    for base in (int, str, bytes):
        if isinstance(b, base):
            return isinstance(a, base) and not isinstance(a, bool) and a == b
    return type(a) is type(b) and a == b


# ---- operations ----------------------------------------------------------------------------------

OTHERS = {
    "int": [0, 1, -1, 2, 3, 7, -5, 255, 2 ** 64, True, 0.5, -2.0],
    "float": [0.0, 1.0, -1.0, 2, 3, 0.5, -2.5, 1e308, math.inf],
    "bool": [0, 1, True, False, 2, -1, 0.5],
}
NUM_BIN = {
    "add": lambda a, b: a + b, "radd": lambda a, b: b + a, "sub": lambda a, b: a - b, "rsub": lambda a, b: b - a,
    "mul": lambda a, b: a * b, "rmul": lambda a, b: b * a, "truediv": lambda a, b: a / b,
    "rtruediv": lambda a, b: b / a, "floordiv": lambda a, b: a // b, "mod": lambda a, b: a % b,
    "rmod": lambda a, b: b % a, "divmod": lambda a, b: divmod(a, b),
    "eq": lambda a, b: a == b, "ne": lambda a, b: a != b, "lt": lambda a, b: a < b, "le": lambda a, b: a <= b,
    "gt": lambda a, b: a > b, "ge": lambda a, b: a >= b, "req": lambda a, b: b == a, "rlt": lambda a, b: b < a,
    "sorted": lambda a, b: sorted([a, b, a]) if a == a and b == b else None,
    "max": lambda a, b: max(a, b) if a == a else None, "min": lambda a, b: min(b, a) if a == a else None,
}
INT_BIN = {
    "and": lambda a, b: a & b, "or": lambda a, b: a | b, "xor": lambda a, b: a ^ b,
    "lshift": lambda a, b: a << (b % 70), "rshift": lambda a, b: a >> (b % 70),
    "pow": lambda a, b: pow(a, b % 5) if abs(a) < 2 ** 70 else None,
    "powmod": lambda a, b: pow(a, 3, b) if b else None,
}
NUM_UN = {
    "neg": lambda a: -a, "pos": lambda a: +a, "abs": lambda a: abs(a), "bool": lambda a: bool(a),
    "int": lambda a: int(a), "float": lambda a: float(a), "complex": lambda a: complex(a),
    "str": lambda a: str(a), "repr": lambda a: repr(a),
    "fmt-empty": lambda a: format(a, ""), "fstring": lambda a: f"{a}", "fmt-10": lambda a: format(a, ">10"),
    "pct-s": lambda a: "%s" % (a,), "pct-r": lambda a: "%r" % (a,),
    "hash": lambda a: hash(a) if a == a else None, "dictkey": lambda a: {a: 1, 1: 2, 0: 3}.get(a) if a == a else None,
    "inset": lambda a: a in {0, 1, 2, 5, -1, 2 ** 63} if a == a else None,
    "inlist": lambda a: a in [0.0, 1, "x"],
    "round": lambda a: round(a), "round2": lambda a: round(a, 2), "roundm1": lambda a: round(a, -1),
    "truth-and": lambda a: 7 if a else 9, "isinst": lambda a: isinstance(a, (int, float)),
}
INT_UN = {
    "invert": lambda a: ~a, "index": lambda a: [10, 20, 30][a % 3], "bin": lambda a: bin(a), "hex": lambda a: hex(a),
    "fmt-d": lambda a: format(a, "d"), "fmt-x": lambda a: format(a, "#x"), "fmt-08": lambda a: format(a, "08"),
    "fmt-,": lambda a: format(a, ","), "fmt-e": lambda a: format(a, ".3e") if abs(a) < 2 ** 1000 else None,
    "pct-d": lambda a: "%d" % a, "pct-5d": lambda a: "%5d" % a,
    "bit_length": lambda a: a.bit_length(), "to_bytes": lambda a: (a % 2 ** 64).to_bytes(8, "big"),
    "range": lambda a: list(range(a % 4)), "chr": lambda a: chr(a % 1000), "as_ratio": lambda a: a.as_integer_ratio(),
    "numer": lambda a: a.numerator, "conj": lambda a: a.conjugate(), "mul-seq": lambda a: "ab" * (a % 3),
    "math-sqrt": lambda a: math.sqrt(a) if 0 <= a < 2 ** 1000 else None,
}
FLOAT_UN = {
    "fmt-f": lambda a: format(a, ".3f"), "fmt-e": lambda a: format(a, "e"), "fmt-g": lambda a: format(a, "g"),
    "fmt-pct": lambda a: format(a, ".1%"), "pct-f": lambda a: "%.2f" % a, "hexf": lambda a: a.hex(),
    "is_integer": lambda a: a.is_integer(), "as_ratio": lambda a: a.as_integer_ratio(),
    "isnan": lambda a: math.isnan(a), "isinf": lambda a: math.isinf(a), "floor": lambda a: math.floor(a),
    "ceil": lambda a: math.ceil(a), "trunc": lambda a: math.trunc(a), "copysign": lambda a: math.copysign(1.0, a),
    "fpow": lambda a: a ** 2, "frexp": lambda a: math.frexp(a), "real": lambda a: a.real,
}
STR_OPS = {
    "len": lambda a: len(a), "str": lambda a: str(a), "repr": lambda a: repr(a), "bool": lambda a: bool(a),
    "hash": lambda a: hash(a), "dictkey": lambda a: {a: 1, "": 2, "a": 3}.get(a), "inset": lambda a: a in {"", "a", "ON"},
    "eq-self": lambda a: a == str(a), "eq-a": lambda a: a == "a", "ne-a": lambda a: a != "a", "lt": lambda a: a < "b",
    "ge": lambda a: a >= "B", "sorted": lambda a: sorted([a, "b", "", a]), "add": lambda a: a + "x",
    "radd": lambda a: "x" + a, "mul": lambda a: a * 2, "in": lambda a: "a" in a, "contains-self": lambda a: a in (a + "z"),
    "slice": lambda a: a[1:3], "index0": lambda a: a[0], "rev": lambda a: a[::-1], "iter": lambda a: list(a),
    "upper": lambda a: a.upper(), "lower": lambda a: a.lower(), "strip": lambda a: a.strip(),
    "split": lambda a: a.split(), "encode": lambda a: a.encode("utf-8"), "enc16": lambda a: a.encode("utf-16-le"),
    "fmt-empty": lambda a: format(a, ""), "fmt-10": lambda a: format(a, ">10"), "fstring": lambda a: f"{a}|{a!r}",
    "pct-s": lambda a: "%s" % a, "join": lambda a: a.join(["1", "2"]), "replace": lambda a: a.replace("a", "b"),
    "startswith": lambda a: a.startswith("a"), "find": lambda a: a.find("a"), "count": lambda a: a.count("a"),
    "isdigit": lambda a: a.isdigit(), "int": lambda a: int(a), "float": lambda a: float(a),
    "zfill": lambda a: a.zfill(5), "title": lambda a: a.title(), "center": lambda a: a.center(7, "*"),
    "casefold": lambda a: a.casefold(), "partition": lambda a: a.partition("a"), "max": lambda a: max(a, "m"),
    "eq-bytes": lambda a: a == b"a", "isinst": lambda a: isinstance(a, str), "ord": lambda a: ord(a),
}
BYTES_OPS = {
    "len": lambda a: len(a), "bytes": lambda a: bytes(a), "repr": lambda a: repr(a), "str": lambda a: str(a),
    "bool": lambda a: bool(a), "hash": lambda a: hash(a), "dictkey": lambda a: {a: 1, b"": 2, b"\x00": 3}.get(a),
    "inset": lambda a: a in {b"", b"\x00", b"a"}, "eq-self": lambda a: a == bytes(a), "eq-a": lambda a: a == b"a",
    "ne": lambda a: a != b"", "lt": lambda a: a < b"\x80", "ge": lambda a: a >= b"\x00",
    "sorted": lambda a: sorted([a, b"b", b"", a]), "add": lambda a: a + b"x", "radd": lambda a: b"x" + a,
    "mul": lambda a: a * 2, "in": lambda a: 0 in a, "insub": lambda a: b"\x00" in a, "slice": lambda a: a[1:3],
    "index0": lambda a: a[0], "rev": lambda a: a[::-1], "iter": lambda a: list(a), "hex": lambda a: a.hex(),
    "decode": lambda a: a.decode("latin-1"), "decode-utf8": lambda a: a.decode("utf-8"),
    "upper": lambda a: a.upper(), "strip": lambda a: a.strip(b"\x00"), "split": lambda a: a.split(b"\x00"),
    "from_bytes": lambda a: int.from_bytes(a, "big"), "bytearray": lambda a: bytearray(a) == bytearray(bytes(a)),
    "memoryview": lambda a: bytes(memoryview(a)), "join": lambda a: a.join([b"1", b"2"]),
    "startswith": lambda a: a.startswith(b"\x00"), "find": lambda a: a.find(b"\x00"), "count": lambda a: a.count(b"a"),
    "pct": lambda a: b"%s" % a, "eq-str": lambda a: a == "a", "isinst": lambda a: isinstance(a, bytes),
    "zfill": lambda a: a.zfill(4), "replace": lambda a: a.replace(b"\x00", b"."), "max": lambda a: max(a, b"m"),
}


def ops_for(kind):
    """list of (name, fn(x)) – binary ops are specialised over OTHERS"""
    out = []
    if kind in ("int", "bool"):
        un = {**NUM_UN, **INT_UN}
        bi = {**NUM_BIN, **INT_BIN}
    elif kind == "float":
        un = {**NUM_UN, **FLOAT_UN}
        bi = NUM_BIN
    elif kind == "str":
        return list(STR_OPS.items())
    else:
        return list(BYTES_OPS.items())
    out.extend(un.items())
    for name, fn in bi.items():
        for o in OTHERS[kind]:
            if name in INT_BIN and not isinstance(o, int):
                continue
            out.append((f"{name}({o!r})", (lambda f, oo: lambda a: f(a, oo))(fn, o)))
    return out


_OPS = {k: ops_for(k) for k in KINDS}


def run_op(fn, x):
    try:
        return ("ok", fn(x))
    except RecursionError:
        raise
    except Exception as e:  # the built-in raising is part of its behaviour
        return ("exc", type(e).__name__)


def make(kind, value, raw):
    cls, _ = _classes()[kind]
    return cls(value) if raw is None else cls(value, raw)


def plain_of(kind, value):
    if kind == "bool":
        return bool(value)
    return _classes()[kind][1](value)


def interesting(kind, value, raw):
    if raw is not None and not raw and not same(raw, value):
        return True
    if kind == "float":
        return value != value or math.isinf(value) or value == 0.0 or abs(value) < 1e-300
    if kind == "int":
        return abs(value) >= 2 ** 63 or value == 0
    if kind in ("str", "bytes"):
        return len(value) == 0 or (kind == "str" and any(ord(c) > 127 or c == "\x00" for c in value)) \
            or (kind == "bytes" and value[:1] == b"\x00")
    return not value


def check_copies(what, x, kind, value, raw_expected):
    """copy, deepcopy, pickle, pipe: class, value, raw_value preserved. Returns None or (kind, detail)."""
    cls = type(x)
    clones = [("copy", lambda: copy.copy(x)), ("deepcopy", lambda: copy.deepcopy(x))]
    for proto in range(0, pickle.HIGHEST_PROTOCOL + 1):
        clones.append((f"pickle{proto}", (lambda p: lambda: pickle.loads(pickle.dumps(x, protocol=p)))(proto)))

    def through_pipe():
        a, b = multiprocessing.Pipe()
        try:
            a.send(x)
            return b.recv()
        finally:
            a.close()
            b.close()
    clones.append(("pipe", through_pipe))
    for name, fn in clones:
        try:
            y = fn()
        except Exception as e:
            return f"{name}-raised", f"{what}: {name} raised {e!r} ({exc_sig(e)})"
        if type(y) is not cls:
            return f"{name}-class", f"{what}: {name} gave {type(y).__name__}, expected {cls.__name__}"
        if not same(plain_of(kind, y), plain_of(kind, value)):
            return f"{name}-value", f"{what}: {name} gave value {y!r}"
        if not hasattr(y, "raw_value"):
            return f"{name}-raw-missing", f"{what}: {name} lost raw_value"
        if not same(y.raw_value, raw_expected) :
            return f"{name}-raw", f"{what}: {name} gave raw_value {y.raw_value!r}, expected {raw_expected!r}"
    return None


def check_value(ctx, case):
    kind, value, raw = case["kind"], dec(case["value"]), dec(case["raw"])
    ctx.count()
    ctx.cls(f"value {kind}")
    what = f"{kind} value={value!r} raw={raw!r}"
    if interesting(kind, value, raw):
        ctx.nontrivial(("v", case))
        ctx.cls("value nontrivial")
    if raw is not None and not raw:
        ctx.cls("value falsy raw given")
    ctx.sample(f"value {kind}", case)
    cls, base = _classes()[kind]
    try:
        x = make(kind, value, raw)
    except Exception as e:
        return ctx.fail("construct-raised", f"{what}: {e!r}", case, bucket="construct-raised:" + exc_sig(e))
    if not isinstance(x, base) or type(x) is not cls:
        return ctx.fail("isinstance", f"{what}: built {type(x).__mro__}", case)
    raw_expected = value if raw is None else raw
    if kind == "bool" and raw is None:
        raw_expected = value
    rv = getattr(x, "raw_value", "<missing>")
    if not same(rv, raw_expected) or (isinstance(raw_expected, bool) != isinstance(rv, bool)):
        return ctx.fail("raw_value", f"{what}: raw_value is {rv!r}, expected {raw_expected!r}", case)
    p = plain_of(kind, value)
    for name, fn in _OPS[kind]:
        a = run_op(fn, x)
        b = run_op(fn, p)
        if a[0] != b[0] or (a[0] == "exc" and a[1] != b[1]) or (a[0] == "ok" and not same(a[1], b[1], kind == "bool")):
            return ctx.fail("op-differs", f"{what}: operation {name} gives {a!r} on the library value and {b!r} on the "
                                          f"built-in {p!r}", case, bucket=f"op:{kind}:{name.split('(')[0]}")
    r = check_copies(what, x, kind, value, raw_expected)
    if r:
        return ctx.fail(r[0], r[1], case, bucket=f"{r[0]}:{kind}")
    return None


# ---- packets ------------------------------------------------------------------------------------

def build_packet(case):
    from space_packet_parser import packets
    pkt = packets.CCSDSPacket(raw_data=bytes.fromhex(case["raw_data"]))
    for name, item in case["items"]:
        pkt[name] = make(item["kind"], dec(item["value"]), dec(item["raw"]))
    pkt.raw_data.pos = case["pos"]
    if case.get("touch_header"):
        _ = pkt.raw_data.header_values  # fills the cached properties
    return pkt


def packet_view(pkt):
    out = []
    for k, v in pkt.items():
        out.append((k, type(v).__name__, enc(_plain_any(v)), enc(_plain_any(getattr(v, "raw_value", None)))))
    return out


def _plain_any(v):
    if v is None or isinstance(v, bool):
        return v
    for base in (int, float, str, bytes):
        if isinstance(v, base):
            return base(v)
    return v


def check_packet(ctx, case):
    from space_packet_parser import packets
    ctx.count()
    ctx.cls("packet")
    n = len(case["items"])
    if n >= 8 and case["pos"] > 0:
        ctx.nontrivial(("p", case))
        ctx.cls("packet nontrivial")
    ctx.sample("packet", case)
    pkt = build_packet(case)
    view0 = packet_view(pkt)
    raw0, pos0 = bytes(pkt.raw_data), pkt.raw_data.pos
    def views(p):
        return ([(k, enc(_plain_any(v))) for k, v in p.header.items()],
                [(k, enc(_plain_any(v))) for k, v in p.user_data.items()])
    hdr0, ud0 = views(pkt)
    if hdr0 != [(k, v) for k, _, v, _ in view0[:7]] or ud0 != [(k, v) for k, _, v, _ in view0[7:]]:
        return ctx.fail("views", f"header/user_data views are not items[:7]/items[7:]: {hdr0} {ud0}", case)
    clones = [("copy", lambda: copy.copy(pkt)), ("deepcopy", lambda: copy.deepcopy(pkt))]
    for proto in range(0, pickle.HIGHEST_PROTOCOL + 1):
        clones.append((f"pickle{proto}", (lambda p: lambda: pickle.loads(pickle.dumps(pkt, protocol=p)))(proto)))

    def through_pipe():
        a, b = multiprocessing.Pipe()
        try:
            a.send(pkt)
            return b.recv()
        finally:
            a.close()
            b.close()
    clones.append(("pipe", through_pipe))
    for name, fn in clones:
        try:
            q = fn()
        except Exception as e:
            return ctx.fail(f"packet-{name}-raised", f"{name} of a packet raised {e!r}", case,
                            bucket=f"packet-{name}-raised:" + exc_sig(e))
        if type(q) is not packets.CCSDSPacket:
            return ctx.fail(f"packet-{name}-class", f"{name} gave {type(q).__name__}", case)
        if packet_view(q) != view0:
            return ctx.fail(f"packet-{name}-items", f"{name} changed the items: {packet_view(q)} != {view0}", case)
        rd = getattr(q, "raw_data", None)
        if type(rd) is not packets.RawPacketData or bytes(rd) != raw0:
            return ctx.fail(f"packet-{name}-raw_data", f"{name} gave raw_data {rd!r} ({type(rd).__name__})", case)
        if rd.pos != pos0:
            return ctx.fail(f"packet-{name}-pos", f"{name} gave cursor {rd.pos}, expected {pos0}", case)
        if views(q) != (hdr0, ud0):
            return ctx.fail(f"packet-{name}-views", f"{name} changed header/user_data views", case)
        if len(raw0) >= 6 and rd.header_values != packets.RawPacketData(raw0).header_values:
            return ctx.fail(f"packet-{name}-header_values", f"{name} changed header_values", case)
    # the original is untouched
    if packet_view(pkt) != view0 or bytes(pkt.raw_data) != raw0 or pkt.raw_data.pos != pos0:
        return ctx.fail("packet-original-changed", "copying changed the original packet", case)
    return None


# ---- decoded values -------------------------------------------------------------------------------

def check_decoded(ctx, case):
    """a field decoded by the library is of the right class, carries raw_value, and survives copying"""
    from space_packet_parser import packets
    from space_packet_parser.xtce import encodings, parameter_types, parameters
    ctx.count()
    ctx.cls("decoded " + case["ptype"])
    ctx.sample("decoded " + case["ptype"], case)
    data = bytes.fromhex(case["data"])
    t = case["ptype"]
    if t == "int":
        pt = parameter_types.IntegerParameterType("T", encodings.IntegerDataEncoding(case["bits"], case["sign"]))
        kind = "int"
    elif t == "ctxint":
        # integer with a context calibrator that does not apply (it compares the field's own raw value with a number
        # the field does not hold): no separate raw value exists, the value is the plain integer
        from space_packet_parser.xtce import calibrators, comparisons
        bits_ = format(int.from_bytes(data, "big"), f"0{8 * len(data)}b")[case.get("offset", 0):case.get("offset", 0) + case["bits"]]
        cc = calibrators.ContextCalibrator(
            [comparisons.Comparison(str(int(bits_, 2) + 1), "P", "==", use_calibrated_value=False)],
            calibrators.PolynomialCalibrator([calibrators.PolynomialCoefficient(2.0, 1)]))
        pt = parameter_types.IntegerParameterType("T", encodings.IntegerDataEncoding(case["bits"], "unsigned",
                                                                                     context_calibrators=[cc]))
        kind = "int"
    elif t == "calint":
        # calibrated integer: the value is a float, the raw value must stay the encoded integer, exactly
        from space_packet_parser.xtce import calibrators
        cal = calibrators.PolynomialCalibrator([calibrators.PolynomialCoefficient(0.5, 1), calibrators.PolynomialCoefficient(1.0, 0)])
        pt = parameter_types.IntegerParameterType("T", encodings.IntegerDataEncoding(case["bits"], "unsigned",
                                                                                     default_calibrator=cal))
        kind = "float"
    elif t == "float":
        pt = parameter_types.FloatParameterType("T", encodings.FloatDataEncoding(case["bits"]))
        kind = "float"
    elif t == "bool":
        pt = parameter_types.BooleanParameterType("T", encodings.IntegerDataEncoding(case["bits"], "unsigned"))
        kind = "bool"
    elif t == "enum":
        pt = parameter_types.EnumeratedParameterType(
            "T", encodings.IntegerDataEncoding(case["bits"], "unsigned"),
            enumeration={i: f"L{i}" for i in range(2 ** min(case["bits"], 8))})
        kind = "str"
    elif t == "str":
        pt = parameter_types.StringParameterType("T", encodings.StringDataEncoding(
            encoding="ISO-8859-1", fixed_raw_length=case["bits"]))
        kind = "str"
    else:
        pt = parameter_types.BinaryParameterType("T", encodings.BinaryDataEncoding(fixed_size_in_bits=case["bits"]))
        kind = "bytes"
    pkt = packets.CCSDSPacket(raw_data=data)
    offset = case.get("offset", 0)
    pkt.raw_data.pos = offset
    if offset % 8 or case["bits"] % 8:
        ctx.cls("decoded: field not byte-aligned")
    try:
        parameters.Parameter("P", pt).parse(pkt)
    except ValueError:
        ctx.cls("decoded: decode raised ValueError (unlisted enum value)")
        return None
    v = pkt["P"]
    cls, base = _classes()[kind]
    if type(v) is not cls:
        return ctx.fail("decoded-class", f"{case}: decoded {type(v).__name__}, expected {cls.__name__}", case)
    if not hasattr(v, "raw_value") or v.raw_value is None:
        return ctx.fail("decoded-raw-missing", f"{case}: decoded value has no raw_value", case)
    if t == "calint":
        bits = format(int.from_bytes(data, "big"), f"0{8 * len(data)}b")[offset:offset + case["bits"]]
        if type(v.raw_value) is not int or v.raw_value != int(bits, 2):
            return ctx.fail("decoded-raw", f"{case}: raw_value {v.raw_value!r} ({type(v.raw_value).__name__}) of a "
                                           f"calibrated integer, the encoded value is {int(bits, 2)}", case)
    if t in ("int", "ctxint", "float", "bytes") and not same(_plain_any(v.raw_value), _plain_any(v)):
        return ctx.fail("decoded-raw", f"{case}: raw_value {v.raw_value!r} differs from uncalibrated value {v!r}", case)
    if not v.raw_value and not same(_plain_any(v.raw_value), _plain_any(v)):
        ctx.nontrivial(("d", case))
        ctx.cls("decoded falsy raw")
    r = check_copies(f"decoded {case}", v, kind, _plain_any(v) if kind != "bool" else bool(v), _plain_any(v.raw_value))
    if r:
        return ctx.fail(r[0], r[1], case, bucket=f"decoded-{r[0]}:{kind}")
    r = None
    c2 = {"raw_data": case["data"], "items": [], "pos": pkt.raw_data.pos}
    if pkt.raw_data.pos != offset + case["bits"]:
        return ctx.fail("decoded-cursor", f"{case}: cursor {pkt.raw_data.pos} after the decode", case)
    clones = [("copy", lambda: copy.copy(pkt)), ("deepcopy", lambda: copy.deepcopy(pkt))]
    for proto in range(0, pickle.HIGHEST_PROTOCOL + 1):
        clones.append((f"pickle{proto}", (lambda p_: lambda: pickle.loads(pickle.dumps(pkt, protocol=p_)))(proto)))
    for name, mk in clones:
        try:
            q = mk()
        except Exception as e:
            return ctx.fail("decoded-packet-copy-raised", f"{case}: {name} of the parsed packet raised {e!r}", case,
                            bucket="decoded-packet-copy-raised:" + exc_sig(e))
        if type(q) is not type(pkt) or packet_view(q) != packet_view(pkt) or q.raw_data.pos != pkt.raw_data.pos \
                or bytes(q.raw_data) != data:
            return ctx.fail("decoded-packet-pickle", f"{case}: {name} of the parsed packet changed it ({c2})", case,
                            bucket="decoded-packet-copy:" + name.rstrip("012345"))
    return None


# ---- strategies -----------------------------------------------------------------------------------

INTS = [0, 1, -1, 2, 255, -128, 2 ** 31, 2 ** 63, 2 ** 63 - 1, -2 ** 63, -2 ** 64, 2 ** 64 - 1, 10 ** 30, -10 ** 30]
FLOATS = [0.0, -0.0, 1.0, -1.0, 1.5, 0.1, math.inf, -math.inf, math.nan, 5e-324, -5e-324, 1.7976931348623157e308,
          2.2250738585072014e-308, 1e16, 123456789.125, -2.5]
TEXTS = ["", "a", "A", "ON", " padded ", "0", "12", "3.5", "\x00", "a\x00", "\x00a", "é", "ß", "日本", "\U0001F680", "a\nb"]
BYTESV = [b"", b"\x00", b"\x00\x00", b"a", b"a\x00", b"\x00a", b"\xff", b"\x80abc", b" a ", bytes(range(16))]


def st_val(kind):
    if kind == "int":
        return st.one_of(st.sampled_from(INTS), st.integers(-2 ** 70, 2 ** 70), st.integers(-300, 300),
                         st.integers(2, 5000).flatmap(lambda b: st.integers(-2 ** b, 2 ** b)))
    if kind == "float":
        return st.one_of(st.sampled_from(FLOATS), st.floats(allow_nan=True, allow_infinity=True),
                         st.floats(-1e6, 1e6))
    if kind == "str":
        return st.one_of(st.sampled_from(TEXTS), st.text(max_size=12), st.text(max_size=12),
                         st.sampled_from([31, 32, 63, 64, 65, 127, 128, 255, 256, 257, 1000, 4096, 16384]).flatmap(
                             lambda n: st.sampled_from(["a", "é", "\x00", " ", "日"]).map(lambda c: c * n)),
                         st.text(min_size=40, max_size=300))
    if kind == "bytes":
        return st.one_of(st.sampled_from(BYTESV), st.binary(max_size=12), st.binary(max_size=12),
                         st.sampled_from([31, 32, 63, 64, 65, 127, 128, 255, 256, 257, 1000, 4096, 16384]).flatmap(
                             lambda n: st.sampled_from([b"a", b"\xff", b"\x00", b"'"]).map(lambda c: c * n)),
                         st.binary(min_size=40, max_size=300))
    return st.booleans()


def st_raw():
    return st.one_of(
        st.none(), st.none(),
        st.sampled_from([0, 0.0, -0.0, "", b"", False]),
        st.sampled_from([0, 0.0, "", b"", False]),
        st_val("int"), st_val("float"), st_val("str"), st_val("bytes"), st.booleans())


@st.composite
def gen_value(draw, kinds=KINDS):
    kind = draw(st.sampled_from(kinds))
    value = draw(st_val(kind))
    raw = draw(st_raw())
    return {"kind": kind, "value": enc(value), "raw": enc(raw)}


@st.composite
def gen_packet(draw):
    n = draw(st.one_of(st.integers(0, 30), st.integers(7, 12)))
    items = []
    for i in range(n):
        items.append([f"P{i}" if draw(st.integers(0, 9)) else f"Q{i}é", draw(gen_value())])
    nbytes = draw(st.one_of(st.integers(0, 40), st.integers(7, 20)))
    raw = draw(st.binary(min_size=nbytes, max_size=nbytes))
    pos = draw(st.one_of(st.just(0), st.integers(0, 8 * nbytes), st.just(8 * nbytes)))
    return {"raw_data": raw.hex(), "items": items, "pos": pos, "touch_header": draw(st.booleans()) and nbytes >= 6}


@st.composite
def gen_decoded(draw):
    t = draw(st.sampled_from(["int", "float", "bool", "enum", "str", "bin", "calint", "ctxint"]))
    if t == "float":
        bits = draw(st.sampled_from([16, 32, 64]))
    elif t == "str":
        bits = 8 * draw(st.integers(1, 6))
    elif t == "bin":
        bits = draw(st.one_of(st.integers(1, 6).map(lambda x: 8 * x), st.integers(1, 50)))
    else:
        bits = draw(st.integers(1, 64))
    offset = draw(st.sampled_from([0, 0, 1, 3, 4, 7, 8, 9]))
    nbytes = (offset + bits + 7) // 8 + draw(st.integers(0, 2))
    data = draw(st.one_of(st.just(bytes(nbytes)), st.binary(min_size=nbytes, max_size=nbytes)))
    case = {"ptype": t, "bits": bits, "data": data.hex(), "offset": offset}
    if t == "int":
        case["sign"] = draw(st.sampled_from(["unsigned", "signed", "twosComplement"]))
    return case


def part_values(ctx, examples):
    hyp_run(ctx, gen_value(), check_value, examples)


def part_grid(ctx):
    """every boundary value x every falsy raw (and no raw) for every class – enumerated, not drawn"""
    vals = {"int": INTS, "float": FLOATS, "str": TEXTS, "bytes": BYTESV, "bool": [False, True]}
    raws = [None, 0, 0.0, -0.0, "", b"", False, 1, 2.5, "x", b"\x01", True, -7]
    n = 0
    for kind in KINDS:
        for v in vals[kind]:
            for r in raws:
                check_value(ctx, {"kind": kind, "value": enc(v), "raw": enc(r)})
                n += 1
    ctx.domain("boundary values x raw values (13) for the five classes", n)


def part_zeros(ctx):
    """signed zeros decoded one after the other in one process keep their own sign (value, raw_value, repr, copy)"""
    import struct
    from space_packet_parser import packets
    from space_packet_parser.xtce import encodings, parameter_types, parameters
    n = 0
    for bits, fmt in ((16, ">e"), (32, ">f"), (64, ">d")):
        param = parameters.Parameter("P", parameter_types.FloatParameterType("T", encodings.FloatDataEncoding(bits)))
        for seq in ([0.0, -0.0, 0.0, -0.0], [-0.0, 0.0, -0.0], [1.5, 0.0, -1.5, -0.0, 2.5]):
            for x in seq:
                pkt = packets.CCSDSPacket(raw_data=struct.pack(fmt, x))
                param.parse(pkt)
                v = pkt["P"]
                ctx.count()
                n += 1
                ctx.nontrivial_distinct()
                ctx.cls("decoded signed zeros in sequence")
                case = {"ptype": "float", "bits": bits, "data": struct.pack(fmt, x).hex(), "sequence": [repr(y) for y in seq]}
                for what, got in (("value", float(v)), ("raw_value", float(v.raw_value)), ("copy", float(copy.copy(v))),
                                  ("pickle", float(pickle.loads(pickle.dumps(v))))):
                    if not same(got, x) or repr(got) != repr(x):
                        return ctx.fail("decoded-zero-sign", f"{bits}-bit float {x!r} decoded in the sequence {seq}: {what} is "
                                                             f"{got!r}", case, bucket="decoded-zero-sign")
    ctx.domain("signed-zero sequences x float widths", n)
    # enumerations may give one label to several raw values: every decoded value carries ITS raw value, whatever was
    # decoded before by the same type object
    from space_packet_parser.xtce import parameter_types as _pt
    m = 0
    for bits in (3, 8):
        et = _pt.EnumeratedParameterType("T", encodings.IntegerDataEncoding(bits, "unsigned"),
                                         enumeration={0: "OFF", 1: "ON", 2: "SAFE", 3: "SAFE", 5: "ON"})
        param = parameters.Parameter("P", et)
        for seq in ([2, 3, 2, 3], [3, 2], [1, 5, 1, 0, 5], [5, 5, 1]):
            for raw in seq:
                pkt = packets.CCSDSPacket(raw_data=bytes([raw << (8 - bits)]))
                param.parse(pkt)
                v = pkt["P"]
                ctx.count()
                m += 1
                ctx.nontrivial_distinct()
                ctx.cls("decoded enumeration labels shared by several raw values, in sequence")
                lab = {0: "OFF", 1: "ON", 2: "SAFE", 3: "SAFE", 5: "ON"}[raw]
                if str(v) != lab or type(v.raw_value) is not int or v.raw_value != raw or \
                        copy.copy(v).raw_value != raw or pickle.loads(pickle.dumps(v)).raw_value != raw:
                    return ctx.fail("decoded-enum-raw", f"{bits}-bit enumeration, raw values decoded in the sequence {seq}: "
                                                        f"raw {raw} gave {str(v)!r} with raw_value {v.raw_value!r}",
                                    {"ptype": "enum-sequence", "bits": bits, "sequence": seq}, bucket="decoded-enum-raw")
    ctx.domain("duplicated-label enumeration sequences", m)


def part_packets(ctx, examples):
    hyp_run(ctx, gen_packet(), check_packet, examples)


def part_decoded(ctx, examples):
    hyp_run(ctx, gen_decoded(), check_decoded, examples)


PARTS = {"values": part_values, "grid": part_grid, "zeros": part_zeros, "packets": part_packets, "decoded": part_decoded}
REPLAY = {"values": check_value, "grid": check_value, "zeros": lambda ctx, case: part_zeros(ctx), "packets": check_packet, "decoded": check_decoded}
KNOWN = {}
FLOORS = {"value falsy raw given": ("", 0.05), "packet nontrivial": ("packet", 0.15)}


def plan(tier, seed):
    q = tier == "quick"
    tasks = [("grid", {}), ("zeros", {})]
    for _ in range(8):
        tasks.append(("values", {"examples": 1000 if q else 30000}))
    for _ in range(5):
        tasks.append(("packets", {"examples": 300 if q else 10000}))
    for _ in range(2 if q else 6):
        tasks.append(("decoded", {"examples": 300 if q else 15000}))
    return tasks
