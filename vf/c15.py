"""C15 – serialization is deterministic and stable under repeated write/load cycles."""
import tempfile
from pathlib import Path

from hypothesis import strategies as st
from lxml import etree

from vf import c01, c09, xcheck, xdoc, xgen, xref
from vf.runner import exc_sig, hyp_run

PROPERTY = "C15"
LEVEL = "exploration"
RULE = ("Documents as in C09 (both routes: loaded from the harness's own XML rendering in three namespace conventions, "
        "or built from objects), fixed header date. Oracle: W(D) == W(D) byte for byte (also after an intervening parse "
        "of packets, after an intervening load of an unrelated document in another namespace convention, and through "
        "write_xml to two files); dump(D) identical before and after writing (independent "
        "dumper); G1 = W(D), G2 = W(L(G1)), G3 = W(L(G2)): G2 == G3 byte for byte; G1 parses as well-formed XML, every "
        "element's namespace equals the definition's XTCE namespace (no namespace at all for namespace-less "
        "definitions) and it holds no comment or processing-instruction nodes. A write or re-load exception is a "
        "violation. Non-trivial: the document has >= 1 float-valued attribute, >= 1 length adjuster and >= 2 "
        "containers (evidence also counts the weaker class 'float attribute or adjuster'); distinct by document hash.")
ASSUMPTIONS = ["W is lxml.etree.tostring(definition.to_xml_tree()) with the header date fixed by the document",
               "root causes shared with C09 (write exceptions) are recorded under the property whose check saw them first"]
EXHAUSTIVE = {"quick": False, "thorough": False}


def _other_doc():
    from vf import pk
    types = [{"kind": "int", "name": n + "_T", "unit": None,
              "enc": {"k": "int", "bits": w, "sign": "unsigned", "order": xdoc.BE, "dcal": None, "ccals": None}}
             for n, w in zip(pk.HEADER_NAMES, pk.HEADER_WIDTHS)]
    return {"name": "OTHER", "date": "2001-01-01", "root": "CCSDSPacket", "types": types,
            "params": [{"name": n, "type": n + "_T", "short": None, "long": None} for n in pk.HEADER_NAMES],
            "containers": [{"name": "CCSDSPacket", "entries": [["p", n] for n in pk.HEADER_NAMES], "base": None,
                            "match": None, "abstract": False, "short": None, "long": None}]}


OTHER_DOC = _other_doc()


def W(defn):
    return etree.tostring(defn.to_xml_tree())


def check_case(ctx, case):
    doc = case["doc"]
    ctx.count()
    js = repr(doc)
    has_float = "'dcal': {" in js or "'cal': {'t'" in js or "'scale'" in js
    has_adj = "'adj': {" in js
    if has_float and has_adj and len(doc["containers"]) >= 2:
        ctx.nontrivial(doc)
        ctx.cls("nontrivial")
    if has_float or has_adj:
        ctx.cls("float attribute or adjuster")
    ctx.cls("route " + case["route"] + ("/" + case["opts"]["ns"] if case["route"] == "xml" else ""))
    ctx.sample("doc", {"containers": [c["name"] for c in doc["containers"]], "types": len(doc["types"]),
                       "route": case["route"], "opts": case.get("opts")})
    try:
        d0 = c01.get_definition(case)
    except Exception as e:
        return ctx.fail("load-raised", f"definition could not be obtained via {case['route']}: {e!r} [{exc_sig(e)}]",
                        case, bucket="load-raised:" + exc_sig(e))
    try:
        dump_before = xdoc.lib_dump(d0)
        order_before = {n: list(c.inheritors) for n, c in d0.containers.items()}
        keys_before = (list(d0.parameter_types), list(d0.parameters), list(d0.containers))
        g1 = W(d0)
        g1b = W(d0)
    except Exception as e:
        return ctx.fail("write-raised", f"to_xml_tree raised {e!r} [{exc_sig(e)}]", case, bucket="write-raised:" + exc_sig(e))
    if g1 != g1b:
        return ctx.fail("nondeterministic", f"two consecutive writes differ: {first_diff(g1, g1b)}", case)
    for ph in case["packets"]:
        xcheck.run(d0, bytes.fromhex(ph), 1, yield_unrecognized_packet_errors=True)
    g1c = W(d0)
    if g1 != g1c:
        return ctx.fail("write-changed-by-parsing", f"writing after parsing packets differs: {first_diff(g1, g1c)}", case)
    # an intervening load of an unrelated document in another namespace convention must not change W(D)
    try:
        other_ns = "default" if (case.get("opts") or {}).get("ns") != "default" or case["route"] == "built" else "prefix"
        xdoc.load(OTHER_DOC, {"ns": other_ns, "prefix": "zz"})
        g1d = W(d0)
    except Exception as e:
        return ctx.fail("write-raised", f"writing after loading another document raised {e!r} [{exc_sig(e)}]", case,
                        bucket="write-after-load-raised:" + exc_sig(e))
    if g1 != g1d:
        return ctx.fail("write-changed-by-other-load", f"writing after loading an unrelated document differs: "
                                                       f"{first_diff(g1, g1d)}", case)
    tmp = tempfile.mkdtemp(prefix="vf_c15_")
    try:
        a, b = Path(tmp) / "a.xml", Path(tmp) / "b.xml"
        d0.write_xml(a)
        d0.write_xml(b)
        if a.read_bytes() != b.read_bytes():
            return ctx.fail("nondeterministic", "write_xml to two files differs", case, bucket="nondeterministic:write_xml")
    except Exception as e:
        return ctx.fail("write-raised", f"write_xml raised {e!r} [{exc_sig(e)}]", case, bucket="write_xml-raised:" + exc_sig(e))
    finally:
        import shutil
        shutil.rmtree(tmp, ignore_errors=True)
    try:
        dump_after = xdoc.lib_dump(d0)
    except xdoc.DumpError as e:
        return ctx.fail("definition-altered", f"after writing: {e}", case)
    df = xdoc.diff(dump_before, dump_after)
    if df:
        return ctx.fail("definition-altered", f"writing altered the definition: {df}", case)
    if order_before != {n: list(c.inheritors) for n, c in d0.containers.items()} or \
            keys_before != (list(d0.parameter_types), list(d0.parameters), list(d0.containers)):
        return ctx.fail("definition-altered", "writing changed the order of inheritor lists or of the name lookups",
                        case, bucket="definition-altered:order")
    # well-formedness and namespace
    try:
        root = etree.fromstring(g1)
    except etree.XMLSyntaxError as e:
        return ctx.fail("not-well-formed", f"{e}", case)
    want_ns = d0.xtce_schema_uri
    for el in root.iter():
        if not isinstance(el.tag, str):
            return ctx.fail("comment-or-pi", f"output contains a {type(el).__name__} node", case)
        ns = etree.QName(el).namespace
        if ns != want_ns:
            return ctx.fail("namespace", f"element {el.tag} is in namespace {ns!r}, the definition's is {want_ns!r}", case)
    # cycles
    try:
        d1 = c09.reload(d0, g1)
        g2 = W(d1)
        d2 = c09.reload(d1, g2)
        g3 = W(d2)
    except Exception as e:
        return ctx.fail("cycle-raised", f"write/load cycle raised {e!r} [{exc_sig(e)}]", case, bucket="cycle-raised:" + exc_sig(e))
    if g2 != g3:
        return ctx.fail("unstable", f"second and third generation differ: {first_diff(g2, g3)}", case)
    ctx.cls("G1 == G2" if g1 == g2 else "G1 != G2 (allowed)")
    return None


def first_diff(a: bytes, b: bytes):
    n = min(len(a), len(b))
    i = next((k for k in range(n) if a[k] != b[k]), n)
    return f"at byte {i}: ...{a[max(0, i - 60):i + 60]!r} vs ...{b[max(0, i - 60):i + 60]!r}"


def part_generated(ctx, examples, profile="full"):
    hyp_run(ctx, c09.gen_case(profile), check_case, examples, shrink_budget=80 if ctx.tier == "quick" else 800, rounds=3)


PARTS = {"generated": part_generated}
REPLAY = {"generated": check_case}
KNOWN = {}
FLOORS = {"float attribute or adjuster": ("", 0.3), "nontrivial": ("", 0.05)}


def plan(tier, seed):
    q = tier == "quick"
    tasks = []
    for i in range(16):
        prof = ["full", "full", "blobs", "lengths"][i % 4]
        tasks.append(("generated", {"examples": 80 if q else 1500, "profile": prof}))
    return tasks
