"""C14 – bit consumption is accounted for; over-reads are never delivered as clean data."""
from hypothesis import strategies as st

from vf import c01, xcheck, xgen, xref
from vf.runner import exc_sig, hyp_run

PROPERTY = "C14"
LEVEL = "exploration"
RULE = ("Hypothesis generates documents with fixed layouts and with length-dependent layouts (referenced, adjusted "
        "incl. negative intercepts, looked-up lengths; string and binary; integer / float fields at the tail; plus an explicit template 'length source -> slope*x+negative intercept -> tail fields') and, "
        "for each, packets synthesised from the document and then left exact, truncated by bits inside the last byte "
        "or by whole bytes, or extended by whole bytes; length-source fields are biased so that slope*x+intercept "
        "becomes negative or exceeds the packet, and half of the syntheses run in a 'rewinding' mode that builds the "
        "packet an implementation letting the cursor run backwards on a negative length would consume exactly. Each packet is parsed alone through packet_generator with "
        "parse_bad_pkts=True and =False, warnings recorded. Oracle: reference clean(D, p) <=> every field lies inside "
        "the packet, every computed length is a non-negative integer, and consumed bits == 8*len(p) (vf/xref.py). "
        "clean => yielded without the 'Number of bits parsed' warning under both settings and raw_data.pos == "
        "reference sum of widths; decodable but consumed != 8*len => yielded WITH the warning (parse_bad_pkts=True) and "
        "withheld (False), cursor == sum of widths, also after a second parse of the same raw packet object; field beyond the end or negative length => warning / withheld or "
        "an exception, never yielded without the warning. Unrecognised packets are out of scope (C05). Non-trivial: "
        "packet not clean, or clean with a dynamic length; distinct by hash of (document, packet).")
ASSUMPTIONS = ["only the length-mismatch warning ('Number of bits parsed ...') is interpreted; other warnings are ignored",
               "packets the document does not define (unrecognised) and decode failures named by C08 are skipped"]
EXHAUSTIVE = {"quick": False, "thorough": False}


def outcome(defn, pkt, parse_bad):
    out, exc, msgs = xcheck.run(defn, pkt, 1, parse_bad_pkts=parse_bad)
    warned = any(xcheck.MISMATCH_TEXT in m for m in msgs)
    return out, exc, warned


def check_case(ctx, case):
    doc = case["doc"]
    pkt = bytes.fromhex(case["packet"])
    ctx.count()
    model = xref.Model(doc)
    res = xref.decode(model, pkt)
    nbits = 8 * len(pkt)
    if res.status == "unrecognized":
        ctx.cls("skipped: unrecognised")
        return None
    if res.status == "error" and res.reason not in ("beyond-end", "negative-length"):
        ctx.cls("skipped: " + res.reason)
        return None
    dyn = bool(res.lengths and any(f != "fixed" for _, _, f in res.lengths))
    if res.status == "ok" and res.pos == nbits:
        label = "exact (clean)" + (" with a dynamic length" if dyn else "")
        if dyn:
            ctx.nontrivial(case)
    elif res.status == "ok":
        label = "long (consumed < packet)" if res.pos < nbits else "short"
        ctx.nontrivial(case)
    elif res.reason == "negative-length":
        label = "negative length"
        ctx.nontrivial(case)
    else:
        name = res.detail.split(":")[0]
        try:
            k = model.ptype(name)["enc"]["k"]
        except KeyError:
            k = "?"
        label = "over-read by the " + ("bytes read path (float/binary)" if k in ("float", "bin") else "integer read path")
        ctx.nontrivial(case)
    ctx.cls(label)
    ctx.sample(label, {"packet": case["packet"], "consumed": res.pos, "bits": nbits, "lengths": res.lengths[:4],
                       "route": case["route"]})
    try:
        defn = c01.get_definition(case)
    except Exception as e:
        return ctx.fail("load-raised", f"definition could not be obtained via {case['route']}: {e!r}", case,
                        bucket="load-raised:" + exc_sig(e))
    for parse_bad in (True, False):
        out, exc, warned = outcome(defn, pkt, parse_bad)
        what = f"[parse_bad_pkts={parse_bad}] packet of {nbits} bits, reference consumes {res.pos} ({label})"
        if res.status == "ok":
            if exc is not None:
                return ctx.fail("raised", f"{what}: generator raised {exc!r} [{exc_sig(exc)}]", case,
                                bucket="raised:" + exc_sig(exc))
            clean = res.pos == nbits
            if clean:
                if warned:
                    return ctx.fail("clean-but-warned", f"{what}: length-mismatch warning on a clean packet", case)
                if len(out) != 1:
                    return ctx.fail("clean-not-yielded", f"{what}: {len(out)} items yielded", case)
            else:
                if not warned:
                    return ctx.fail("mismatch-not-warned", f"{what}: no length-mismatch warning", case)
                if parse_bad and len(out) != 1:
                    return ctx.fail("mismatch-not-yielded", f"{what}: {len(out)} items yielded", case)
                if not parse_bad and out:
                    return ctx.fail("mismatch-not-withheld", f"{what}: the packet was yielded although bad packets are "
                                                             f"excluded", case)
            if out and out[0].raw_data.pos != res.pos:
                return ctx.fail("cursor", f"{what}: cursor {out[0].raw_data.pos} after the parse, expected {res.pos} "
                                          f"(sum of the widths of the decoded fields)", case)
            if out and parse_bad:
                # a second successful parse of the very same raw packet object: the cursor is again the sum of widths
                from space_packet_parser import packets as _pk
                try:
                    again = defn.parse_ccsds_packet(_pk.CCSDSPacket(raw_data=out[0].raw_data))
                except Exception as e:  # noqa: BLE001
                    return ctx.fail("reparse-raised", f"{what}: parsing the yielded packet's raw data again raised {e!r}",
                                    case, bucket="reparse-raised:" + exc_sig(e))
                if again.raw_data.pos != res.pos or list(again) != list(out[0]):
                    return ctx.fail("reparse-cursor", f"{what}: second parse of the same raw packet object ends with "
                                                      f"cursor {again.raw_data.pos} and items {list(again)[:12]}, expected "
                                                      f"cursor {res.pos} and items {list(out[0])[:12]}", case)
        else:
            # a field beyond the end of the packet or a negative computed length
            if exc is not None:
                continue
            if out and not warned:
                return ctx.fail("overread-delivered-clean",
                                f"{what}: {res.reason} ({res.detail}) but the packet was yielded without a "
                                f"length-mismatch warning, items {dict(out[0]) if isinstance(out[0], dict) else out[0]}",
                                case, bucket="overread-delivered-clean:" + res.reason)
            if out and not parse_bad:
                return ctx.fail("overread-not-withheld", f"{what}: {res.reason} but the packet was yielded although bad "
                                                         f"packets are excluded", case)
    return None


@st.composite
def gen_case(draw, profile):
    doc = draw(xgen.gen_doc(profile))
    model = xref.Model(doc)
    pkt = draw(xgen.gen_packet(doc, mutate=True, model=model))
    return {"doc": doc, "packet": pkt.hex(), "route": draw(st.sampled_from(["xml", "xml", "built"])),
            "opts": draw(c01.gen_opts())}


def _int_type(name, bits, sign="unsigned"):
    return {"kind": "int", "name": name + "_T", "unit": None,
            "enc": {"k": "int", "bits": bits, "sign": sign, "order": xgen.BE, "dcal": None, "ccals": None}}


@st.composite
def gen_template_doc(draw):
    """explicit template for the interaction 'length source -> adjusted (possibly negative) length -> tail fields':
    header, a length source, optional filler, a string/binary field sized slope*LEN+intercept, 0..3 tail fields"""
    from vf import pk
    names = list(pk.HEADER_NAMES)
    types = [_int_type(n, w) for n, w in zip(pk.HEADER_NAMES, pk.HEADER_WIDTHS)]
    fields = []
    lw = draw(st.sampled_from([8, 8, 4, 3, 16]))
    # how the length can become negative: through the linear adjustment, through a signed length source, or through
    # a calibrator on the length source (no adjustment in the last two)
    how = draw(st.sampled_from(["adjust", "adjust", "signed", "calibrated"]))
    lt = _int_type("LEN", lw, "twosComplement" if how == "signed" else "unsigned")
    if how == "calibrated":
        lt["enc"]["dcal"] = {"t": "poly", "terms": [[float(draw(st.sampled_from([8, 8, 16, 1]))), 1],
                                                    [-float(draw(st.sampled_from([8, 16, 24, 32]))), 0]]}
    types.append(lt)
    fields.append("LEN")
    if draw(st.booleans()):
        types.append(_int_type("FILL", draw(st.sampled_from([8, 16, 4, 5]))))
        fields.append("FILL")
    slope = draw(st.sampled_from([8, 8, 16, 1, 0]))
    intercept = -draw(st.sampled_from([8, 16, 16, 24, 32, 1, 7]))
    if how == "adjust":
        ln = {"t": "dyn", "ref": "LEN", "cal": draw(st.booleans()), "adj": {"slope": slope, "intercept": intercept}}
    else:
        ln = {"t": "dyn", "ref": "LEN", "cal": how == "calibrated", "adj": None}
    if draw(st.booleans()):
        types.append({"kind": "bin", "name": "BLOB_T", "unit": None, "enc": {"k": "bin", "len": ln}})
    else:
        types.append({"kind": "str", "name": "BLOB_T", "unit": None,
                      "enc": {"k": "str", "charset": draw(st.sampled_from(["US-ASCII", "ISO-8859-1", "UTF-8"])),
                              "order": None, "len": ln, "delim": None}})
    fields.append("BLOB")
    for i in range(draw(st.integers(0, 3))):
        kind = draw(st.sampled_from(["int", "int", "float", "bin"]))
        if kind == "int":
            types.append(_int_type(f"TAIL{i}", draw(st.sampled_from([8, 16, 24, 32, 1, 7])),
                                   draw(st.sampled_from(["unsigned", "signed"]))))
        elif kind == "float":
            types.append({"kind": "float", "name": f"TAIL{i}_T", "unit": None,
                          "enc": {"k": "float", "bits": draw(st.sampled_from([16, 32, 64])), "fmt": "IEEE754",
                                  "order": xgen.BE, "dcal": None, "ccals": None}})
        else:
            types.append({"kind": "bin", "name": f"TAIL{i}_T", "unit": None,
                          "enc": {"k": "bin", "len": {"t": "fixed", "bits": 8 * draw(st.integers(1, 4))}}})
        fields.append(f"TAIL{i}")
    params = [{"name": n, "type": n + "_T", "short": None, "long": None} for n in names + fields]
    return {"name": None, "date": "2020-01-01", "root": "CCSDSPacket", "types": types, "params": params,
            "containers": [{"name": "CCSDSPacket", "entries": [["p", n] for n in names + fields], "base": None,
                            "match": None, "abstract": False, "short": None, "long": None}]}


@st.composite
def gen_multi(draw, profile, n):
    """several packets per document (documents are the expensive part): returned as a list of cases"""
    doc = draw(gen_template_doc()) if profile == "template" else draw(xgen.gen_doc(profile))
    model = xref.Model(doc)
    route = draw(st.sampled_from(["xml", "xml", "built"]))
    opts = draw(c01.gen_opts())
    return [{"doc": doc, "packet": draw(xgen.gen_packet(doc, mutate=True, model=model)).hex(), "route": route,
             "opts": opts} for _ in range(n)]


def check_multi(ctx, cases):
    for c in cases:
        check_case(ctx, c)


def part_generated(ctx, examples, profile):
    hyp_run(ctx, gen_multi(profile, 6), check_multi, examples, shrink_budget=60 if ctx.tier == "quick" else 600,
            rounds=2)


def replay(ctx, case):
    if isinstance(case, list):
        return check_multi(ctx, case)
    return check_case(ctx, case)


PARTS = {"generated": part_generated}
REPLAY = {"generated": replay}
KNOWN = {}
FLOORS = {"long (consumed < packet)": ("", 0.03), "negative length": ("", 0.003),
          "over-read by the integer read path": ("", 0.01), "over-read by the bytes read path (float/binary)": ("", 0.003)}


def plan(tier, seed):
    q = tier == "quick"
    tasks = []
    for i in range(16):
        prof = ["lengths", "template", "blobs", "full", "template", "lengths", "template", "full"][i % 8]
        tasks.append(("generated", {"examples": 40 if q else 2500, "profile": prof}))
    return tasks
