"""Shared comparison of a library packet_generator run with the reference semantics (used by C01, C05,
C07, C09, C11, C14)."""
import warnings
from itertools import islice

from vf import xref
from vf.runner import exc_sig

MISMATCH_TEXT = "Number of bits parsed"


class Expect:
    """what the properties allow for one packet"""

    def __init__(self, res: xref.Result, nbits: int):
        self.res = res
        self.nbits = nbits
        self.items = res.items
        self.exc = None
        if res.status == "ok":
            self.kind = "yield"
            self.clean = res.pos == nbits
        elif res.status == "unrecognized":
            self.kind = "unrecognized"
        else:
            r = res.reason
            if r in ("enum-unlisted", "calibration-error"):
                self.kind, self.exc = "raise", res.expect_exc
            elif r == "no-lookup-match":
                self.kind = "raise"
            elif r == "criteria-undefined":
                self.kind = "precondition"
            else:   # beyond-end, negative-length, non-integer-length, unspecified
                self.kind = "either"

    def label(self):
        if self.kind == "yield":
            return "clean" if self.clean else "length-mismatch"
        if self.kind == "unrecognized":
            return "unrecognized-" + self.res.reason
        return f"{self.kind}:{self.res.reason}"


def expectations(model, packets):
    return [Expect(xref.decode(model, p), 8 * len(p)) for p in packets]


def run(defn, stream, cap, **kwargs):
    """(items, exception or None, warning messages)"""
    out, exc = [], None
    with warnings.catch_warnings(record=True) as w:
        warnings.simplefilter("always")
        try:
            gen = defn.packet_generator(stream, **kwargs)
            for item in islice(gen, cap + 2):
                out.append(item)
        except Exception as e:  # noqa: BLE001 - judged by the caller
            exc = e
    return out, exc, [str(x.message) for x in w]


def lib_items(packet):
    return [(k, v) for k, v in packet.items()]


def _raw_of(item):
    from space_packet_parser.exceptions import UnrecognizedPacketTypeError
    if isinstance(item, UnrecognizedPacketTypeError):
        item = item.partial_data
    rd = getattr(item, "raw_data", None)
    return bytes(rd) if rd is not None else None


def compare_run(expects, out, exc, yield_errors, packets=None, parse_bad=True):
    """sequential comparison. returns None or (kind, detail)"""
    from space_packet_parser.exceptions import UnrecognizedPacketTypeError
    i = 0  # index into out
    for idx, ex in enumerate(expects):
        if ex.kind == "precondition":
            return None  # generator precondition broken: nothing is asserted from here on
        if ex.kind == "unrecognized" and not yield_errors:
            continue
        have = out[i] if i < len(out) else None
        if ex.kind == "yield" and not ex.clean and not parse_bad:
            # a length-mismatched packet is withheld when bad packets are excluded
            if have is not None and packets is not None and _raw_of(have) == packets[idx] \
                    and (idx + 1 >= len(packets) or packets[idx + 1] != packets[idx]):
                return "bad-packet-yielded", (f"packet {idx} consumed {ex.res.pos} of {ex.nbits} bits but was yielded "
                                              f"with parse_bad_pkts=False")
            continue
        if ex.kind == "either":
            # reading beyond the end / an unspecified sub-domain: the library may raise, yield the packet (the
            # fields before the failing one must agree), report it as unrecognized or withhold it
            if have is None or (packets is not None and _raw_of(have) != packets[idx]):
                if have is None and exc is not None:
                    return None
                continue
            i += 1
            if isinstance(have, UnrecognizedPacketTypeError):
                continue
            d = xref.compare_items(lib_items(have), ex.items, prefix_only=True)
            if d:
                return "items", f"packet {idx} ({ex.label()}): {d}"
            continue
        if ex.kind == "raise" and have is None:
            if exc is None:
                return "no-exception", (f"packet {idx}: decoding must fail ({ex.res.reason}: {ex.res.detail}) but the "
                                        f"generator ended normally after {len(out)} items")
            if ex.exc and type(exc).__name__ != ex.exc and ex.exc not in [c.__name__ for c in type(exc).__mro__]:
                return "wrong-exception", (f"packet {idx}: expected {ex.exc} ({ex.res.detail}), got {exc!r} "
                                           f"[{exc_sig(exc)}]")
            d = None
            return d
        if have is None:
            if exc is not None:
                return "raised:" + exc_sig(exc), (f"packet {idx} ({ex.label()}): generator raised {exc!r} "
                                                  f"[{exc_sig(exc)}]; expected items {[n for n, _, _ in ex.items]}")
            return "missing", f"packet {idx} ({ex.label()}) was not yielded; generator ended after {len(out)} items"
        i += 1
        if ex.kind == "unrecognized":
            if not isinstance(have, UnrecognizedPacketTypeError):
                return "unrecognized-yielded", (f"packet {idx} is not defined by the document ({ex.res.reason}) but "
                                                f"was yielded as {type(have).__name__} {list(have)[:12] if isinstance(have, dict) else have}")
            pd = have.partial_data
            if pd is None:
                return "partial-data", f"packet {idx}: UnrecognizedPacketTypeError without partial_data"
            d = xref.compare_items(lib_items(pd), ex.items)
            if d:
                return "partial-data", f"packet {idx} ({ex.res.reason}): partial data: {d}"
            continue
        if isinstance(have, UnrecognizedPacketTypeError) or not isinstance(have, dict):
            return "unexpected-error-object", (f"packet {idx} ({ex.label()}): yielded {have!r}, expected a packet with "
                                               f"{[n for n, _, _ in ex.items]}")
        if ex.kind == "raise":
            return "no-exception", (f"packet {idx}: decoding must fail ({ex.res.reason}: {ex.res.detail}) but a packet "
                                    f"with items {dict(have)} was yielded")
        d = xref.compare_items(lib_items(have), ex.items)
        if d:
            return "items", f"packet {idx} ({ex.label()}): {d}"
        if ex.kind == "yield":
            if have.raw_data.pos != ex.res.pos:
                return "cursor", f"packet {idx}: cursor {have.raw_data.pos} after parsing, expected {ex.res.pos}"
            hdr, ud = list(have.header), list(have.user_data)
            names = [n for n, _, _ in ex.items]
            if hdr != names[:7] or ud != names[7:]:
                return "views", f"packet {idx}: header {hdr} / user_data {ud} are not the first seven / the rest of {names}"
    if i < len(out):
        return "extra-item", f"{len(out) - i} item(s) beyond the expected sequence: {out[i]!r}"
    if exc is not None:
        return "raised:" + exc_sig(exc), f"generator raised {exc!r} [{exc_sig(exc)}] after all expected items"
    return None
